/-
  Native functions, part 6: the math functions whose float64 result is an exactly computable
  function of the (exact rational) arguments: floor ceil round nearbyint rint trunc fabs
  significand logb frexp modf ldexp/scalb/scalbln fmin fmax fdim copysign nextafter/nexttoward
  drem/remainder fmod fma, and the classifiers infinite nan isnan isinfinite isfinite isnormal.
  Go's `math` package computes these exactly (no rounding error beyond the final correctly
  rounded result), so "exact value, then `roundRat`" is faithful; the transcendental functions
  stay an uninterpreted parameter (only their type dispatch is modelled, see `callNative`).
  All functions take float carriers (`Num.toFlt` has been applied: no `Num.int`).
-/
import Gojq.Model.Native.Base
namespace Gojq

/-- an exactly representable result `q`, with the sign of zero given separately -/
def fltSigned (q : Rat) (negZero : Bool) : Num :=
  if q == 0 then signedZero negZero else .flt q

def truncRat (q : Rat) : Int := if q < 0 then -((-q).floor) else q.floor

/-- `math.Trunc` -/
def ftrunc : Num → Num
  | .flt q => fltSigned (truncRat q : Rat) (q < 0)
  | n => n

/-- `math.Round`: half away from zero -/
def fround : Num → Num
  | .flt q =>
    let a := if q < 0 then -q else q
    let r : Int := (a + (1 : Rat) / 2).floor
    fltSigned (if q < 0 then -(r : Rat) else (r : Rat)) (q < 0)
  | n => n

/-- `math.RoundToEven` -/
def froundEven : Num → Num
  | .flt q =>
    let a := if q < 0 then -q else q
    let r : Int := roundHalfEven a
    fltSigned (if q < 0 then -(r : Rat) else (r : Rat)) (q < 0)
  | n => n

/-- `math.Frexp`: fraction in ±[1/2, 1) and exponent; `(f, 0)` for ±0, ±Inf, NaN -/
def ffrexp : Num → Num × Int
  | .flt q =>
    if q == 0 then (.flt 0, 0) else
    let a := if q < 0 then -q else q
    let e := ilog2 a + 1
    (.flt (q / pow2 e), e)
  | n => (n, 0)

/-- `funcSignificand`: `frac * 2` -/
def fsignificand (n : Num) : Num :=
  match (ffrexp n).1 with
  | .flt q => .flt (q * 2)
  | m => m

/-- `math.Logb` -/
def flogb : Num → Num
  | .flt q => if q == 0 then .inf true else .flt ((ilog2 (if q < 0 then -q else q) : Int) : Rat)
  | .nzero => .inf true
  | .inf _ => .inf false
  | n => n

/-- `funcModf`: `[frac, int]`, both with the sign of the argument -/
def fmodf : Num → Num × Num
  | .flt q =>
    let t : Rat := (truncRat q : Rat)
    (fltSigned (q - t) (q < 0), fltSigned t (q < 0))
  | .inf s => (signedZero s, .inf s)
  | n => (n, n)

/-- `int(r)` for a float64 in the int64 range (elsewhere the conversion is platform-defined) -/
def floatToIntExact? : Num → Option Int
  | .flt q => if (minInt : Rat) ≤ q ∧ q < (9223372036854775808 : Rat) then some (truncRat q) else none
  | .nzero => some 0
  | _ => none

/-- `int(min(max(r, -4096), 4096))` of `funcLdexp`: the count is clamped as a float64 first (so
    ±Inf and huge counts are well defined: beyond ±4096 the result saturates anyway), then
    truncated. NaN stays NaN through Go's `min`/`max`, and `int(NaN)` is platform-defined: `none`. -/
def ldexpCount? (r : Num) : Option Int :=
  match r with
  | .nan => none
  | .inf neg => some (if neg then -4096 else 4096)
  | .nzero => some 0
  | .int z => some (if z < -4096 then -4096 else if z > 4096 then 4096 else z)
  | .flt q => some (if q < -4096 then -4096 else if q > 4096 then 4096 else truncRat q)

/-- `math.Ldexp(x, e)` -/
def fldexp (x : Num) (e : Int) : Num :=
  match x with
  | .flt q =>
    if q == 0 then x
    else if e > 2200 then .inf (q < 0)
    else if e < -2200 then signedZero (q < 0)
    else roundRat (q * pow2 e)
  | n => n

/-- Go's builtin `max`/`min` on two non-NaN floats (`-0 < +0` for them) -/
def fmaxNum (l r : Num) : Num :=
  if fltLt l r then r else if fltLt r l then l
  else if l.signNeg then r else l
def fminNum (l r : Num) : Num :=
  if fltLt l r then l else if fltLt r l then r
  else if l.signNeg then l else r

/-- `funcFmax` / `funcFmin` -/
def ffmax (l r : Num) : Num := if l.isNaN then r else if r.isNaN then l else fmaxNum l r
def ffmin (l r : Num) : Num := if l.isNaN then r else if r.isNaN then l else fminNum l r

/-- `math.Dim`: `v := x - y; if v <= 0 { return 0 }; return v` -/
def ffdim (x y : Num) : Num :=
  let v := fsub x y
  if fltLt v (.flt 0) || fltEq v (.flt 0) then .flt 0 else v

/-- `math.Copysign(x, y)` (the NaN of the model carries no sign: `math.NaN()` has a clear sign bit) -/
def fcopysign (x y : Num) : Num :=
  let neg := y.signNeg
  match x with
  | .flt q => let a := if q < 0 then -q else q; if a == 0 then signedZero neg else .flt (if neg then -a else a)
  | .nzero => signedZero neg
  | .inf _ => .inf neg
  | n => n

/-- `math.Nextafter(x, y)` through the bit patterns -/
def fnextafter (x y : Num) : Num :=
  if x.isNaN || y.isNaN then .nan
  else if fltEq x y then x
  else if x.isZeroF then fcopysign (.flt (pow2 (-1074))) y
  else
    match x.toBits? with
    | none => .nan
    | some b =>
      let up := (fltLt x y) == (fltLt (.flt 0) x)
      Num.ofBits (if up then b + 1 else b - 1)

def roundHalfEvenSigned (q : Rat) : Int := if q < 0 then -(roundHalfEven (-q)) else roundHalfEven q

/-- `math.Remainder(x, y)` (IEEE 754: `x - n·y`, `n` the integer nearest `x/y`, ties to even);
    a zero result has the sign of `x` (so `funcDrem`'s copysign changes nothing) -/
def fremainder (x y : Num) : Num :=
  if x.isNaN || y.isNaN then .nan else
  match x.toRat?, y.toRat? with
  | none, _ => .nan                    -- x = ±Inf
  | some _, none => x                  -- y = ±Inf
  | some a, some b =>
    if b == 0 then .nan
    else fltSigned (a - (roundHalfEvenSigned (a / b) : Rat) * b) x.signNeg

/-- `math.Mod(x, y)`: `x - trunc(x/y)·y`, sign of `x` -/
def ffmod (x y : Num) : Num :=
  if x.isNaN || y.isNaN then .nan else
  match x.toRat?, y.toRat? with
  | none, _ => .nan
  | some _, none => x
  | some a, some b =>
    if b == 0 then .nan
    else fltSigned (a - (truncRat (a / b) : Rat) * b) x.signNeg

/-- `math.FMA(x, y, z)`: `x·y + z` with one rounding. `none` in the one corner where Go's result
    depends on the CPU: a non-zero product that underflows to zero added to a zero of the other
    sign (the FMA instruction gives the product's sign, Go's software fallback `x*y + z` gives +0). -/
def ffma (x y z : Num) : Option Num :=
  if x.isNaN || y.isNaN || z.isNaN then some .nan else
  let pneg := x.signNeg != y.signNeg
  match x.toRat?, y.toRat? with
  | some a, some b =>
    match z.toRat? with
    | none => some z
    | some c =>
      if a * b == 0 then
        -- an exact (signed) zero product: IEEE addition of zeros
        if c == 0 then some (if pneg && z.signNeg then .nzero else .flt 0) else some z
      else if c == 0 && (roundRat (a * b)).isZeroF && (pneg != z.signNeg) then none
      else if a * b + c == 0 then some (.flt 0)
      else some (roundRat (a * b + c))
  | a?, b? =>
    -- an infinite factor
    if a? == some 0 || b? == some 0 then some .nan
    else match z with
      | .inf s => if s == pneg then some (.inf s) else some .nan
      | _ => some (.inf pneg)

/-- `funcIsnormal`: exponent bits neither 0 nor 0x7ff -/
def fisnormal : Num → Bool
  | .flt q => let a := if q < 0 then -q else q; decide (pow2 (-1022) ≤ a)
  | _ => false

def fisinf : Num → Bool
  | .inf _ => true
  | _ => false

/-- the one-argument math functions with an exact model -/
def mathFn1 (name : String) (x : Num) : Option Num :=
  match name with
  | "floor" => some (ffloor x)
  | "ceil" => some (fceil x)
  | "round" => some (fround x)
  | "nearbyint" => some (froundEven x)
  | "rint" => some (froundEven x)
  | "trunc" => some (ftrunc x)
  | "fabs" => some (fabs x)
  | "significand" => some (fsignificand x)
  | "logb" => some (flogb x)
  | _ => none

/-- the two-argument math functions with an exact model (`none` also where Go's `int(r)` is
    platform-defined: ldexp with a NaN count) -/
def mathFn2 (name : String) (l r : Num) : Option Num :=
  match name with
  | "copysign" => some (fcopysign l r)
  | "drem" => some (fremainder l r)
  | "remainder" => some (fremainder l r)
  | "fdim" => some (ffdim l r)
  | "fmax" => some (ffmax l r)
  | "fmin" => some (ffmin l r)
  | "fmod" => some (ffmod l r)
  | "nextafter" => some (fnextafter l r)
  | "nexttoward" => some (fnextafter l r)
  | "ldexp" | "scalb" | "scalbln" => (ldexpCount? r).map (fldexp l)
  | _ => none

/-- names dispatched through `mathFunc` (one float), `mathFunc2`, `mathFunc3` in func.go -/
def mathFunc1Names : List String :=
  ["sin", "cos", "tan", "asin", "acos", "atan", "sinh", "cosh", "tanh", "asinh", "acosh", "atanh",
   "floor", "round", "nearbyint", "rint", "ceil", "trunc", "significand", "fabs", "sqrt", "cbrt",
   "exp", "exp10", "exp2", "expm1", "log", "log10", "log1p", "log2", "logb", "gamma", "tgamma",
   "lgamma", "erf", "erfc", "j0", "j1", "y0", "y1"]
def mathFunc2Names : List String :=
  ["atan2", "copysign", "drem", "fdim", "fmax", "fmin", "fmod", "hypot", "jn", "nextafter",
   "nexttoward", "remainder", "ldexp", "scalb", "scalbln", "yn", "pow"]
def mathFunc3Names : List String := ["fma"]

end Gojq

/-
  C19 — compile options: the arity-mask arithmetic of `withFunction` (option.go), the
  acceptance test `function.accept`, and the variable count check / binding order of
  `RunWithContext` + `execute` + the `opstore` prologue emitted by `Compile`.
  Core Lean only.
-/
namespace Gojq.Options

/-! ## custom functions -/

/-- `0 <= minarity && minarity <= maxarity && maxarity <= 30` -/
def validArity (mn mx : Int) : Bool := decide (0 ≤ mn) && decide (mn ≤ mx) && decide (mx ≤ 30)

/-- `1<<(maxarity+1) - 1<<minarity` (Go `int`, no overflow for maxarity ≤ 30) -/
def argcount (mn mx : Nat) : Nat := 2 ^ (mx + 1) - 2 ^ mn

/-- `fn.argcount&(1<<cnt) != 0`.  On a 64-bit `int`, `1<<cnt` is 0 for cnt ≥ 64 and the sign
    bit for cnt = 63; neither meets a (non-negative) mask below 2^63, and neither does the
    mathematical `2^cnt`, so the expression over `Nat` is the same function of such masks. -/
def accept (mask cnt : Nat) : Bool := mask &&& (2 ^ cnt) != 0

/-- what `c.customFuncs[name]` holds: the mask, the iter flag, and which registration's
    callback runs for a call with `n` arguments (`none`: the mask rejects `n` before any
    callback is consulted, or the innermost callback — the first registration — is reached) -/
structure Entry where
  mask : Nat
  iter : Bool
  /-- registration ids, newest first, each with its own mask: the wrapper closure chain -/
  chain : List (Nat × Nat)
  deriving Repr, DecidableEq

inductive RegResult where
  | ok (e : Entry)
  /-- `panic("invalid arity …")`, raised when the option value is constructed -/
  | panicArity
  /-- `panic("cannot define both iterator and non-iterator functions …")`, raised when the
      option is applied by `Compile` -/
  | panicIter
  deriving Repr, DecidableEq

/-- one `WithFunction` / `WithIterFunction` for a name whose current entry is `prev` -/
def register (prev : Option Entry) (id : Nat) (mn mx : Int) (iter : Bool) : RegResult :=
  if !validArity mn mx then .panicArity
  else
    let m := argcount mn.toNat mx.toNat
    match prev with
    | none => .ok ⟨m, iter, [(id, m)]⟩
    | some e =>
      if e.iter != iter then .panicIter
      else .ok ⟨m ||| e.mask, iter, (id, m) :: e.chain⟩

/-- the wrapper chain: `if argcount&(1<<len(xs)) != 0 { f } else { fn.callback }`; the oldest
    registration is called unconditionally at the end of the chain -/
def dispatch : List (Nat × Nat) → Nat → Option Nat
  | [], _ => none
  | [(id, _)], _ => some id
  | (id, m) :: rest, n => if accept m n then some id else dispatch rest n

/-- a call `name(a₁;…;aₙ)`: rejected at compile time (function not defined) or dispatched -/
def call (e : Entry) (n : Nat) : Option Nat := if accept e.mask n then dispatch e.chain n else none

/-- registrations applied in order -/
def registerAll : Option Entry → Nat → List (Int × Int × Bool) → RegResult
  | none, _, [] => .panicArity  -- unreachable for a non-empty list; keeps the function total
  | some e, _, [] => .ok e
  | prev, id, (mn, mx, it) :: rest =>
    match register prev id mn mx it with
    | .ok e => registerAll (some e) (id + 1) rest
    | r => r

/-- `Compile(q, WithFunction(name, …), WithFunction(name, …), …)`: every option value is
    constructed (arity check) before `Compile` applies the first one -/
def applyOptions (regs : List (Int × Int × Bool)) : RegResult :=
  if regs.any (fun r => !validArity r.1 r.2.1) then .panicArity else registerAll none 1 regs

/-! ## variables -/

inductive Start (α : Type) where
  /-- `NewIter(&tooManyVariableValuesError{})` -/
  | tooMany
  /-- `NewIter(&expectedVariableError{name})` -/
  | expected (name : String)
  /-- execution starts: bindings (slot per distinct name) and the remaining stack -/
  | run (env : List (String × α)) (stack : List α)
  deriving Repr, DecidableEq

/-- `opstore` into the slot of `name` (`pushVariable`: one slot per distinct name) -/
def store {α} (env : List (String × α)) (name : String) (v : α) : List (String × α) :=
  if env.any (·.1 == name) then env.map (fun kv => if kv.1 == name then (name, v) else kv)
  else env ++ [(name, v)]

/-- the prologue: one `opstore` per `WithVariables` name, in order, each popping the stack -/
def storeAll {α} : List String → List α → List (String × α) → List (String × α) × List α
  | [], st, env => (env, st)
  | _ :: _, [], env => (env, [])
  | n :: ns, v :: st, env => storeAll ns st (store env n v)

/-- `RunWithContext` + `execute`: the count check, then the input is pushed, then the values
    in reverse order (so that the first value is on top when the prologue starts) -/
def start {α} (names : List String) (input : α) (values : List α) : Start α :=
  if values.length > names.length then .tooMany
  else if h : values.length < names.length then .expected (names[values.length])
  else
    let r := storeAll names (values ++ [input]) []
    .run r.1 r.2

def lookup {α} (env : List (String × α)) (name : String) : Option α :=
  match env.find? (·.1 == name) with
  | some kv => some kv.2
  | none => none

end Gojq.Options

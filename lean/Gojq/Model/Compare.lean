/-
  jq's value order (DESIGN §6 C11): `cmp` transliterates `gojq.Compare` (compare.go) through
  `binopTypeSwitch` (operator.go).

    int   / int    exact integer comparison (`cmp.Compare` on Go ints, `(*big.Int).Cmp` when at
                   least one side is a *big.Int — both are the order of the integers)
    int   / float  `float64(l)` resp. `bigToFloat(l)` (= `roundInt`), then the float callback
    float / float  the float callback: `lt(l, r) = l < r || isNaN(l)` ⇒ -1, `l == r` ⇒ 0, else 1
    string/string  Go's `<` on strings = bytewise lexicographic (`Bytes.cmp`)
    array / array  first differing element, then the lengths
    object/object  `Compare(keys(l), keys(r))` (arrays of strings), then the values in key order
    otherwise      `typeIndex`

  Core Lean only; mutual structural recursion over `JV` / `List JV` / `List (Bytes × JV)`.
-/
import Gojq.Model.Float
namespace Gojq

/-- exact comparison of integers (`cmp.Compare[int]`, `(*big.Int).Cmp`) -/
def cmpInt (l r : Int) : Ordering :=
  if l < r then .lt else if l = r then .eq else .gt

/-- comparison of exact rationals -/
def cmpRat (l r : Rat) : Ordering :=
  if l < r then .lt else if l = r then .eq else .gt

def cmpNat (l r : Nat) : Ordering :=
  if l < r then .lt else if l = r then .eq else .gt

/-- IEEE `l < r` on float carriers (false as soon as one side is NaN).
    `int` is not a float carrier; it is given its exact value so the function is total. -/
def fltLt : Num → Num → Bool
  | .nan, _ => false
  | _, .nan => false
  | .inf true, .inf true => false
  | .inf true, _ => true
  | _, .inf true => false
  | .inf false, _ => false
  | _, .inf false => true
  | a, b =>
    match a.toRat?, b.toRat? with
    | some x, some y => decide (x < y)
    | _, _ => false

/-- IEEE `l == r` on float carriers (`-0 == +0`, `NaN != NaN`) -/
def fltEq : Num → Num → Bool
  | .nan, _ => false
  | _, .nan => false
  | .inf s, .inf t => s == t
  | .inf _, _ => false
  | _, .inf _ => false
  | a, b =>
    match a.toRat?, b.toRat? with
    | some x, some y => decide (x = y)
    | _, _ => false

def Num.isNaN : Num → Bool
  | .nan => true
  | _ => false

/-- the float callback of `Compare`:
    `switch { case lt(l, r): -1; case l == r: 0; default: 1 }`, `lt(l, r) = l < r || isNaN(l)` -/
def cmpFloat (l r : Num) : Ordering :=
  if fltLt l r || l.isNaN then .lt
  else if fltEq l r then .eq
  else .gt

/-- `Compare` on two numbers (json.Number is normalised by `parseNumber` first, so the model's
    single integer representation stands for int, *big.Int and integer literals) -/
def cmpNum : Num → Num → Ordering
  | .int l, .int r => cmpInt l r
  | a, b => cmpFloat a.toFlt b.toFlt

/-- `typeIndex` (compare.go) -/
def typeIndex : JV → Nat
  | .null => 0
  | .bool false => 1
  | .bool true => 2
  | .num _ => 3
  | .str _ => 4
  | .arr _ => 5
  | .obj _ => 6

/-- `Compare(funcKeys(l), funcKeys(r))`: the two sorted key lists compared as arrays of strings -/
def cmpKeys : List (Bytes × JV) → List (Bytes × JV) → Ordering
  | [], [] => .eq
  | [], _ :: _ => .lt
  | _ :: _, [] => .gt
  | (k, _) :: xs, (l, _) :: ys =>
    match Bytes.cmp k l with
    | .eq => cmpKeys xs ys
    | o => o

mutual
  /-- `gojq.Compare` -/
  def cmp : JV → JV → Ordering
    | .num a, .num b => cmpNum a b
    | .str a, .str b => Bytes.cmp a b
    | .arr a, .arr b => cmpList a b
    | .obj a, .obj b =>
      match cmpKeys a b with
      | .eq => cmpVals a b
      | o => o
    | a, b => cmpNat (typeIndex a) (typeIndex b)
  /-- the array callback: first non-equal pair, then `cmp.Compare(len(l), len(r))` -/
  def cmpList : List JV → List JV → Ordering
    | [], [] => .eq
    | [], _ :: _ => .lt
    | _ :: _, [] => .gt
    | x :: xs, y :: ys =>
      match cmp x y with
      | .eq => cmpList xs ys
      | o => o
  /-- the second loop of the object callback: `for _, k := range lk { Compare(l[k], r[k]) }`.
      It runs only when both key lists are equal, so the values are met position by position. -/
  def cmpVals : List (Bytes × JV) → List (Bytes × JV) → Ordering
    | (_, x) :: xs, (_, y) :: ys =>
      match cmp x y with
      | .eq => cmpVals xs ys
      | o => o
    | _, _ => .eq
end

/-! ### the six comparison operators (operator.go `funcOpEq` … `funcOpLe`) -/

def opEq (l r : JV) : Bool := cmp l r == .eq
def opNe (l r : JV) : Bool := cmp l r != .eq
def opGt (l r : JV) : Bool := cmp l r == .gt
def opLt (l r : JV) : Bool := cmp l r == .lt
def opGe (l r : JV) : Bool := cmp l r != .lt
def opLe (l r : JV) : Bool := cmp l r != .gt

/-! ### the domain of the order theorems -/

/-- 2^53 -/
def two53 : Int := 9007199254740992

/-- a number of the property's domain: any integer; a float of magnitude below 2^53; no NaN, no ±Inf -/
def Num.tame : Num → Bool
  | .int _ => true
  | .flt q => decide (-(two53 : Rat) < q) && decide (q < (two53 : Rat))
  | .nzero => true
  | .nan => false
  | .inf _ => false

mutual
  /-- every number inside the value is `Num.tame` -/
  def JV.tame : JV → Bool
    | .num n => n.tame
    | .arr xs => JV.tameList xs
    | .obj kvs => JV.tameKvs kvs
    | _ => true
  def JV.tameList : List JV → Bool
    | [] => true
    | x :: xs => JV.tame x && JV.tameList xs
  def JV.tameKvs : List (Bytes × JV) → Bool
    | [] => true
    | (_, x) :: xs => JV.tame x && JV.tameKvs xs
end

/-- the exact value of a finite number (`-0` is 0; NaN/Inf get 0 and are outside every theorem) -/
def Num.val : Num → Rat
  | .int z => (z : Rat)
  | .flt q => q
  | _ => 0

end Gojq

/-
  C14 — string positions are code points; the regex builtins are compositions of `match`.
  Core Lean only (linked into drv_c14).

  The regular-expression ENGINE (Go's `regexp`) is a PARAMETER of this model: every function
  below takes the engine's answer
      raw   = r.FindAllStringSubmatchIndex(s, n)   one index list per match, BYTE offsets,
                                                   -1 / -1 for a group that did not take part
      names = r.SubexpNames()                      "" for an unnamed group, names[0] = ""
  and does exactly what the code does after the engine returned:

    func.go    funcMatch      byte offsets -> code-point offsets, the `match` objects
               funcCaptures   `_captures`: the object of named captures
               compileRegexp  flags -> the syntax string handed to regexp.Compile
               funcLength (string), indexString, sliceString, clampIndex,
               indices / funcIndex / funcRindex through indexFunc (string case: on `explode`)
    builtin.jq test, capture, scan, splits, split/2, sub, gsub  — written from their jq
               definitions as structural folds over the (finite) list of match objects.

  Go panics (slice bounds, index out of range) are the explicit outcome `none` of the
  `Option`-valued functions; they are unreachable for answers the engine can give
  (`matchesOK`, proved in Props/C14.lean: `match_no_panic`).
-/
import Gojq.Model.Utf8
namespace Gojq.Regex
open Gojq

/-- `FindAllStringSubmatchIndex`: one list `[s0, e0, s1, e1, …]` of byte offsets per match -/
abbrev Raw := List (List Int)

def B (s : String) : Bytes := Bytes.ofString s

/-! ## code-point positions on strings (func.go) -/

/-- `funcLength` on a string: `len([]rune(v))` -/
def strLength (s : Bytes) : Nat := (Utf8.runes s).length

/-- `clampIndex(i, minimum, maximum)`.  Callers pass `0 ≤ maximum` and an `int` `i`, so
    `i += maximum` (executed for negative `i` only) cannot overflow: no wrapping here. -/
def clampIndex (i minimum maximum : Int) : Int :=
  let i := if i < 0 then i + maximum else i
  if i < minimum then minimum else if i < maximum then i else maximum

/-- `for i := range v { if k--; k < 0 { k = i; break } }` — the byte offset at which the
    `k`-th decoded rune of `v` starts.  Only called with `k < len([]rune(v))` (the code guards
    the loop by `start < l` / `end < l`), so the loop always breaks; the answers for an
    exhausted string / fuel are never used. -/
def runeStartAux : Nat → Bytes → Nat → Nat
  | 0, _, _ => 0
  | fuel + 1, s, k =>
    match k, s with
    | 0, _ => 0
    | _, [] => 0
    | k + 1, b :: t =>
      let w := max (Utf8.decodeRune (b :: t)).2.1 1
      w + runeStartAux fuel ((b :: t).drop w) k

def runeStart (s : Bytes) (k : Nat) : Nat := runeStartAux (s.length + 1) s k

/-- the two byte offsets `(start, end)` sliceString computes before the final `v[start:end]`,
    for integer (or null = `none`) bounds.  `toInt`/`toIntCeil` on integers are the identity on Go
    `int`s (saturation of integers beyond 64 bits is `satInt`, applied by the driver). -/
def sliceOffsets (v : Bytes) (e st : Option Int) : Nat × Nat :=
  let l : Int := (strLength v : Nat)
  let start : Int := match st with
    | none => 0
    | some i => clampIndex i 0 l
  let end_ : Int := match e with
    | none => l
    | some i => clampIndex i start l
  let a := if start < l then runeStart v start.toNat else v.length
  let b := if end_ < l then runeStart v end_.toNat else v.length
  (a, b)

/-- `sliceString(v, e, s)`: `.[s:e]` on a string.  The final Go expression `v[start:end]` would
    panic for `start > end` or `end > len(v)`; `slice_bytes_ordered` (Props/C14.lean) shows the
    offsets are ordered and in range, so `drop`/`take` is that expression. -/
def sliceStr (v : Bytes) (e st : Option Int) : Bytes :=
  (v.drop (sliceOffsets v e st).1).take ((sliceOffsets v e st).2 - (sliceOffsets v e st).1)

/-- `slice(vs, e, s)`: `.[s:e]` on an ARRAY (`vs[start:end]` after the same clamping) — the
    specification side of `slice_is_codepoint_slice`. -/
def sliceList {α : Type} (vs : List α) (e st : Option Int) : List α :=
  let l : Int := (vs.length : Nat)
  let start : Int := match st with
    | none => 0
    | some i => clampIndex i 0 l
  let end_ : Int := match e with
    | none => l
    | some i => clampIndex i start l
  (vs.drop start.toNat).take (end_.toNat - start.toNat)

/-- `indexString(s, i)`: `.[i]` on a string; `none` = null -/
def indexStr (s : Bytes) (i : Int) : Option Bytes :=
  let rs := Utf8.runes s
  let i := clampIndex i (-1) (rs.length : Nat)
  if 0 ≤ i ∧ i < (rs.length : Nat) then
    match rs[i.toNat]? with
    | some r => some (Utf8.encodeRune r)
    | none => none
  else none

/-- `index(vs, i)`: `.[i]` on an array — the specification side of `index_is_codepoint` -/
def indexList {α : Type} (vs : List α) (i : Int) : Option α :=
  let i := clampIndex i (-1) (vs.length : Nat)
  if 0 ≤ i ∧ i < (vs.length : Nat) then vs[i.toNat]? else none

/-- `indices(vs, xs)` on code-point lists (`Compare` of two int slices is elementwise equality):
    `for i := range len(vs)-len(xs)+1 { if vs[i:i+len(xs)] == xs { append i } }` -/
def indicesList (vs xs : List Nat) : List Nat :=
  if xs.isEmpty then []
  else (List.range (vs.length + 1 - xs.length)).filter fun i => (vs.drop i).take xs.length == xs

/-- `indices` / `index` / `rindex` on strings: indexFunc explodes both sides -/
def strIndices (s x : Bytes) : List Nat := indicesList (Utf8.runes s) (Utf8.runes x)
def strIndex (s x : Bytes) : Option Nat := (strIndices s x).head?
def strRindex (s x : Bytes) : Option Nat := (strIndices s x).getLast?

/-- `toInt` on an integer of any magnitude (*big.Int saturates) -/
def satInt (z : Int) : Int :=
  if z < -9223372036854775808 then -9223372036854775808
  else if z > 9223372036854775807 then 9223372036854775807 else z

/-! ## compileRegexp: flags -> syntax -/

/-- the string handed to `regexp.Compile`; `none` = "unsupported regular expression flag".
    `strings.IndexFunc(flags, r != 'g' && r != 'i' && r != 'm')` ranges over runes; a rune other
    than the three ASCII letters exists iff some BYTE is not one of them. -/
def regexSyntax (re flags : Bytes) : Option Bytes :=
  if flags.all (fun b => b.toNat == 103 || b.toNat == 105 || b.toNat == 109) then
    let re := if flags.any (fun b => b.toNat == 105) then B "(?i)" ++ re else re
    let re := if flags.any (fun b => b.toNat == 109) then B "(?s)" ++ re else re
    some re
  else none

/-- `strings.ContainsRune(flags, 'g')`: n = -1, else n = 1 -/
def isGlobal (flags : Bytes) : Bool := flags.any (fun b => b.toNat == 103)

/-! ## funcMatch -/

/-- one element of `.captures` -/
structure Cap where
  name : Option Bytes      -- null for an unnamed group
  offset : Int             -- code points; -1 for a group that did not take part
  length : Int
  string : Option Bytes    -- null for a group that did not take part
  deriving Repr, DecidableEq

/-- one `match` object -/
structure Match where
  offset : Int
  length : Int
  string : Bytes
  captures : List Cap
  deriving Repr, DecidableEq

/-- Go `s[a:b]`; `none` = slice bounds out of range panic -/
def goSlice (s : Bytes) (a b : Int) : Option Bytes :=
  if 0 ≤ a ∧ a ≤ b ∧ b ≤ (s.length : Nat) then some ((s.drop a.toNat).take (b.toNat - a.toNat)) else none

/-- `len([]rune(s[:b]))` -/
def runeCountTo (s : Bytes) (b : Int) : Option Int :=
  match goSlice s 0 b with
  | some p => some ((Utf8.runes p).length : Nat)
  | none => none

/-- `[s0,e0,s1,e1,…]` as pairs; an odd trailing element is never read by funcMatch -/
def pairs : List Int → List (Int × Int)
  | a :: b :: rest => (a, b) :: pairs rest
  | _ => []

/-- the body of the inner loop for group `j`: `n = names[j]`, `(a, b) = (x[2j], x[2j+1])` -/
def mkCap (s : Bytes) (n : Bytes) (a b : Int) : Option Cap :=
  let name := if n.isEmpty then none else some n
  if a < 0 then some { name := name, offset := -1, length := 0, string := none }
  else
    match runeCountTo s a, runeCountTo s b, goSlice s a b with
    | some oa, some ob, some str => some { name := name, offset := oa, length := ob - oa, string := some str }
    | _, _, _ => none

/-- groups 1..: `ns = names[1:]`; running out of names is Go's index-out-of-range panic -/
def mkCaps (s : Bytes) : List Bytes → List (Int × Int) → Option (List Cap)
  | _, [] => some []
  | [], _ :: _ => none
  | n :: ns, (a, b) :: ps =>
    match mkCap s n a b, mkCaps s ns ps with
    | some c, some cs => some (c :: cs)
    | _, _ => none

/-- the body of the outer loop for one index list `x` (a list shorter than 2 panics in
    `make`/`x[1]`) -/
def mkMatch (s : Bytes) (names : List Bytes) (x : List Int) : Option Match :=
  match pairs x with
  | [] => none
  | (a, b) :: ps =>
    match mkCaps s names.tail ps, runeCountTo s a, runeCountTo s b, goSlice s a b with
    | some caps, some oa, some ob, some str =>
      some { offset := oa, length := ob - oa, string := str, captures := caps }
    | _, _, _, _ => none

def mkMatches (s : Bytes) (names : List Bytes) : Raw → Option (List Match)
  | [] => some []
  | x :: xs =>
    match mkMatch s names x, mkMatches s names xs with
    | some m, some ms => some (m :: ms)
    | _, _ => none

def jInt (z : Int) : JV := .num (.int z)
def jOptStr : Option Bytes → JV
  | some b => .str b
  | none => .null

/-- key order: "length" < "name" < "offset" < "string" -/
def Cap.toJV (c : Cap) : JV :=
  .obj [(B "length", jInt c.length), (B "name", jOptStr c.name), (B "offset", jInt c.offset),
        (B "string", jOptStr c.string)]

/-- key order: "captures" < "length" < "offset" < "string" -/
def Match.toJV (m : Match) : JV :=
  .obj [(B "captures", .arr (m.captures.map Cap.toJV)), (B "length", jInt m.length),
        (B "offset", jInt m.offset), (B "string", .str m.string)]

/-- `_match($re; $flags; false)` after the engine returned: the array of match objects.
    (`global` only selects the engine call `n = -1` / `n = 1`; it is not read afterwards.) -/
def funcMatch (s : Bytes) (raw : Raw) (names : List Bytes) : Option JV :=
  match mkMatches s names raw with
  | some ms => some (.arr (ms.map Match.toJV))
  | none => none

/-- `_match($re; $flags; true)` = `r.MatchString(s)`.  ENGINE ASSUMPTION (regexp's documented
    contract, checked on every case by the `builtin` stream): `MatchString(s)` holds iff
    `FindAllStringSubmatchIndex(s, n)` is non-empty. -/
def test (raw : Raw) : Bool := !raw.isEmpty

/-! ## `_captures` (funcCaptures) -/

/-- `w[name] = capture["string"]` for every capture whose name is a string, in order
    (a later group of the same name overwrites: Go's regexp accepts duplicate names) -/
def capStep (acc : List (Bytes × JV)) (c : Cap) : List (Bytes × JV) :=
  match c.name with
  | some n => kvInsert n (jOptStr c.string) acc
  | none => acc

def capturesKvs (caps : List Cap) : List (Bytes × JV) := caps.foldl capStep []

/-! ## builtin.jq -/

/-- `def capture($re; $flags): match($re; $flags) | .captures | _captures;` -/
def capture (ms : List Match) : List JV := ms.map fun m => .obj (capturesKvs m.captures)

/-- `def scan($re; $flags): match($re; $flags + "g") |
       if .captures == [] then .string else [.captures[].string] end;` -/
def scan (ms : List Match) : List JV := ms.map fun m =>
  match m.captures with
  | [] => .str m.string
  | caps => .arr (caps.map fun c => jOptStr c.string)

/-- `def splits($re; $flags):
       .[foreach (match($re; $flags + "g"), null) as {$offset, $length}
           (null; {start: .next, end: $offset, next: $offset + $length})];`
    `next` is the state's `.next` (null before the first match); each iteration emits
    `.[{start: .next, end: $offset}]`; the trailing `null` gives `$offset = null`. -/
def splitsAux (s : Bytes) : Option Int → List Match → List Bytes
  | next, [] => [sliceStr s none next]
  | next, m :: ms => sliceStr s (some m.offset) next :: splitsAux s (some (m.offset + m.length)) ms

def splits (s : Bytes) (ms : List Match) : List Bytes := splitsAux s none ms

/-- `def split($re; $flags): [splits($re; $flags)];` -/
def split2 (s : Bytes) (ms : List Match) : JV := .arr ((splits s ms).map .str)

/-- the inner `reduce ($captures | _captures | str) as $s (.i = 0; .r[.i] += .s[.next:$offset] + $s | .i += 1)`:
    the `i`-th output `o` of the replacement is appended, after the piece `p`, to `r[i]`
    (`null + x = x` for an index `r` does not have yet). -/
def mergeOut : List Bytes → Bytes → List Bytes → List Bytes
  | r, _, [] => r
  | [], p, o :: os => (p ++ o) :: mergeOut [] p os
  | x :: r, p, o :: os => (x ++ p ++ o) :: mergeOut r p os

/-- the outer `reduce match($re; $flags) as {$offset, $length, $captures} ({s: ., r: []}; … | .next = $offset + $length)`
    over matches paired with the outputs of the replacement on their capture object -/
def subFold (s : Bytes) : List Bytes × Option Int → List (Match × List Bytes) → List Bytes × Option Int
  | st, [] => st
  | (r, next), (m, outs) :: rest =>
    subFold s (mergeOut r (sliceStr s (some m.offset) next) outs, some (m.offset + m.length)) rest

/-- `… | .r[] + .s[.next:] // .s` : strings are truthy, so `//` falls back to `.s` iff `r` is empty -/
def subFinish (s : Bytes) (st : List Bytes × Option Int) : List Bytes :=
  match st.1 with
  | [] => [s]
  | r => r.map fun x => x ++ sliceStr s none st.2

def subCore (s : Bytes) (mos : List (Match × List Bytes)) : List Bytes :=
  subFinish s (subFold s ([], none) mos)

/-- `def sub($re; str; $flags)`: `ms` are the matches for `$flags`, `rep` is the replacement
    filter `str` as a function from the capture object to the list of its outputs, RESTRICTED
    to string outputs (a null output behaves as `""` because `string + null = string`; any
    other output type is jq's `cannot add` error, not modelled). -/
def sub (s : Bytes) (ms : List Match) (rep : List (Bytes × JV) → List Bytes) : List Bytes :=
  subCore s (ms.map fun m => (m, rep (capturesKvs m.captures)))

/-- the replacement filter `.name` as a function of the capture object (a null or absent value
    contributes nothing: `string + null = string`) -/
def fieldRep (k : Bytes) (kvs : List (Bytes × JV)) : List Bytes :=
  match kvLookup k kvs with
  | some (.str b) => [b]
  | _ => [[]]

/-- `def gsub($re; str; $flags): sub($re; str; $flags + "g")` — the same fold over the global matches -/
def gsub (s : Bytes) (ms : List Match) (rep : List (Bytes × JV) → List Bytes) : List Bytes := sub s ms rep

/-! ## what the engine guarantees about its answer (`MatchesOK`) -/

/-- byte offsets reachable by decoding from the start: the rune boundaries, `0` and `len` included -/
def boundsAux : Nat → Bytes → Nat → List Nat
  | 0, _, off => [off]
  | _ + 1, [], off => [off]
  | fuel + 1, b :: t, off =>
    let w := max (Utf8.decodeRune (b :: t)).2.1 1
    off :: boundsAux fuel ((b :: t).drop w) (off + w)

def boundaries (s : Bytes) : List Nat := boundsAux s.length s 0

def isBoundary (s : Bytes) (b : Int) : Bool := decide (0 ≤ b) && (boundaries s).contains b.toNat

/-- a group either did not take part (-1, -1) or spans rune boundaries in order -/
def groupOK (s : Bytes) (p : Int × Int) : Bool :=
  (p.1 == -1 && p.2 == -1) || (isBoundary s p.1 && isBoundary s p.2 && decide (p.1 ≤ p.2))

/-- one index list: even length ≥ 2, as many groups as names, whole match present, every group ok -/
def matchOK (s : Bytes) (names : List Bytes) (x : List Int) : Bool :=
  x.length % 2 == 0 && decide (2 ≤ x.length) && names.length == x.length / 2 &&
  (pairs x).all (groupOK s) &&
  match x with
  | a :: _ => decide (0 ≤ a)
  | [] => false

/-- successive matches do not overlap: each starts at or after the end of the previous one -/
def orderedFrom : Int → Raw → Bool
  | _, [] => true
  | p, x :: xs =>
    match x with
    | a :: b :: _ => decide (p ≤ a) && orderedFrom b xs
    | _ => false

/-- the hypothesis of the C14 theorems; the harness evaluates it (through the driver) on every
    answer of the real engine it feeds in -/
def matchesOK (s : Bytes) (names : List Bytes) (raw : Raw) : Bool :=
  Utf8.valid s && raw.all (matchOK s names) && orderedFrom 0 raw

/-! ## specification vocabulary (used only in the statements of Props/C14.lean) -/

/-- `p0 ++ m1 ++ p1 ++ … ++ mn ++ pn`: pieces interleaved with separators -/
def interleave : List Bytes → List Bytes → Bytes
  | [], _ => []
  | p :: ps, [] => p ++ interleave ps []
  | p :: ps, m :: ms => p ++ m ++ interleave ps ms

/-- what funcMatch turns `SubexpNames()[1:]` into: `""` ↦ null -/
def capNames (names : List Bytes) : List (Option Bytes) :=
  names.tail.map fun n => if n.isEmpty then none else some n

end Gojq.Regex

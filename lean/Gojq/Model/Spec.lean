/-
  `Spec.eval` — jq's backtracking-generator semantics as a compositional, fuel-indexed
  evaluator (DESIGN §3.2).  This is the statement of "what jq prescribes" used by C01, C02,
  C03, C13, C14.  Fuel decreases at every recursive call, so the definition is structurally
  recursive on the fuel alone; running out of fuel is the explicit, absorbing outcome
  `Stop.fuel`, never a value.

  A result is the list of outputs in order followed by how the stream ended.  `Res.bind`
  is sequencing: outputs of the left are fed to the right one after the other, and the
  first non-`done` stop ends everything — which is exactly "the outer loop is the left
  generator, an error ends the stream".

  Path tracking (`path(f)`, `paths`, update operators) is part of the same evaluator: a
  state `St` carries the value, an identity `Ident` standing for Go pointer identity of
  containers, and — inside `path(…)` — the summary `PCtx` of gojq's paths stack (the path
  so far and the value last navigated to).  Where the model cannot decide pointer identity
  it stops with `unmodelled`, never with a guess.
-/
import Gojq.Model.Syntax
import Gojq.Model.Native
namespace Gojq.Spec
open Gojq

/-- stands for pointer identity of a container: reached by navigating `p` from root `root`
    (0 = the program input; other roots are `path(…)` activations re-rooted at a value whose
    identity was not known), freshly constructed, or not known to the model -/
inductive Ident where
  | known (root : Nat) (p : List JV)
  | fresh
  | unknown
  deriving Inhabited

/-- summary of the paths stack: path so far, the value last navigated to and its identity -/
structure PCtx where
  path : List JV
  w : JV
  wid : Ident
  deriving Inhabited

/-- what flows between filters -/
structure St where
  v : JV
  id : Ident := .unknown
  ctx : Option PCtx := none
  /-- this value (or one it was computed from) was emitted by a non-last alternative of `?//`
      whose remaining alternatives are still pending: gojq's `opforkalt` intercepts ANY error
      raised while it is pending, including errors raised by the continuation (as jq 1.6:
      `[first([] as [$a] ?// $b | null)]` is `[null,null]`).  The direct-style evaluator cannot
      resume an alternative from inside a continuation, so an error downstream of such a value
      is the explicit outcome `unmodelled`. -/
  pend : Bool := false
  deriving Inhabited

inductive Stop where
  | done
  | err (e : Err)
  | fuel
  | unmodelled (why : String)
  deriving Inhabited

structure Res where
  outs : List St
  stop : Stop := .done
  deriving Inhabited

def Res.empty : Res := ⟨[], .done⟩
def Res.one (s : St) : Res := ⟨[s], .done⟩
def Res.fail (e : Err) : Res := ⟨[], .err e⟩
def Res.unmodelled (why : String) : Res := ⟨[], .unmodelled why⟩
def Res.outOfFuel : Res := ⟨[], .fuel⟩

def Stop.isDone : Stop → Bool | .done => true | _ => false

/-- sequencing: feed the outputs to `f` in order; the first non-`done` stop ends the stream -/
def pendStop (pend : Bool) (s : Stop) : Stop :=
  match pend, s with
  | true, .err _ => .unmodelled "error downstream of an output of a non-last `?//` alternative (intercepted by the pending alternative)"
  | _, s => s

def Res.bindList (f : St → Res) (final : Stop) : List St → Res
  | [] => ⟨[], final⟩
  | x :: xs =>
    let r0 := f x
    let r1 : Res := if x.pend then ⟨r0.outs.map ({ · with pend := true }), pendStop true r0.stop⟩ else r0
    match r1.stop with
    | .done => let r2 := Res.bindList f final xs; ⟨r1.outs ++ r2.outs, r2.stop⟩
    | s => ⟨r1.outs, s⟩

def Res.bind (r : Res) (f : St → Res) : Res := Res.bindList f r.stop r.outs

/-- concatenation of two streams (comma): the right one only runs if the left ended normally -/
def Res.append (a : Res) (b : Unit → Res) : Res :=
  match a.stop with
  | .done => let r := b (); ⟨a.outs ++ r.outs, r.stop⟩
  | _ => a

/-! ### environments -/

mutual
  inductive Binding where
    /-- `$name` -/
    | var (name : String) (v : JV) (id : Ident)
    /-- `def name(params): body`, closed over the environment at its definition (which, by
        construction of `Env.defs`, contains the definition itself: recursion) -/
    | fn (name : String) (params : List String) (body : Query) (builtin : Bool)
    /-- a filter argument: closure over the caller's environment -/
    | clo (name : String) (body : Query) (env : Env)
    /-- `label $name` with the identity of this activation -/
    | label (name : String) (id : Nat)
  inductive Env where
    | mk (bs : List Binding)
end

def Env.bs : Env → List Binding | .mk bs => bs
def Env.push (b : Binding) (e : Env) : Env := .mk (b :: e.bs)
def Env.empty : Env := .mk []

/-- what a name/arity resolves to in the lexical environment.  For `fn` the environment
    returned is the suffix starting at the definition itself. -/
inductive Lookup where
  | var (v : JV) (id : Ident)
  | fn (params : List String) (body : Query) (env : Env) (builtin : Bool)
  | clo (body : Query) (env : Env)
  | none

def lookupCall (name : String) (arity : Nat) : List Binding → Lookup
  | [] => .none
  | b :: rest =>
    match b with
    | .var n v id => if arity == 0 && n == name then .var v id else lookupCall name arity rest
    | .fn n ps body bi => if n == name && ps.length == arity then .fn ps body (.mk (b :: rest)) bi else lookupCall name arity rest
    | .clo n body env => if arity == 0 && n == name then .clo body env else lookupCall name arity rest
    | .label _ _ => lookupCall name arity rest

def lookupLabel (name : String) : List Binding → Option Nat
  | [] => none
  | .label n id :: rest => if n == name then some id else lookupLabel name rest
  | _ :: rest => lookupLabel name rest

/-- push the definitions of a query header in order (later ones see earlier ones and themselves) -/
def Env.defs (e : Env) (ds : List FuncDef) (builtin : Bool := false) : Env :=
  ds.foldl (fun e d => e.push (.fn d.name d.params d.body builtin)) e

/-- the jq-defined builtins (`builtin.jq` as shipped in `builtin.go`), name/arity → definition -/
structure Builtins where
  defs : List FuncDef

def Builtins.find (b : Builtins) (name : String) (arity : Nat) : Option FuncDef :=
  b.defs.find? fun d => d.name == name && d.params.length == arity

/-! ### path bookkeeping -/

def identEq : Ident → Ident → Option Bool
  | .known r p, .known r' p' =>
    let hasSlice (p : List JV) := p.any fun x => match x with | .obj _ => true | _ => false
    if r == r' then
      if hasSlice p || hasSlice p' then (if p == p' then some true else none)
      else some (p == p')
    else none
  -- a fresh value was allocated during the run, so it is not (part of) the program input
  -- (root 0); any other root is a `path(…)` activation re-rooted at a value whose identity the
  -- model did not know — possibly this very fresh value, reached again through a variable or
  -- a second evaluation of the same constant
  | .fresh, .known r _ => if r == 0 then some false else none
  | .known r _, .fresh => if r == 0 then some false else none
  | _, _ => none

def isEmptyArr : JV → Bool | .arr [] => true | _ => false

def isContainer : JV → Bool | .arr _ => true | .obj _ => true | _ => false

mutual
  /-- does the container `w` occur (structurally) in `v`, `v` itself included? -/
  def occursIn (w : JV) : JV → Bool
    | .arr xs => (JV.arr xs == w) || occursInList w xs
    | .obj kvs => (JV.obj kvs == w) || occursInVals w kvs
    | _ => false
  def occursInList (w : JV) : List JV → Bool
    | [] => false
    | x :: xs => occursIn w x || occursInList w xs
  def occursInVals (w : JV) : List (Bytes × JV) → Bool
    | [] => false
    | (_, x) :: kvs => occursIn w x || occursInVals w kvs
end

/-- identity of a container a native function or update returned, given the values it was
    handed: natives return one of their arguments (or a part of one) unchanged in many corner
    cases — `delpaths([])`, `del(.absent)`, `. + []`, `min`, `getpath([])`, `(.) |= .` — so a
    result structurally equal to (a part of) a given value may be that very Go value and its
    pointer identity is not known to the model; any other container is a new allocation. -/
def resultIdent (given : List JV) (w : JV) : Ident :=
  if isContainer w && given.any (occursIn w) then .unknown else .fresh

/-- `env.pathIntact(v)`: is `v` the value last navigated to?  `none` = the model cannot tell -/
def pathIntact (s : St) (c : PCtx) : Option Bool :=
  match s.v, c.w with
  | .arr a, .arr b =>
    -- two empty arrays: Go's `[]any{}` values all share one pointer (runtime.zerobase) but an
    -- empty slice of a non-empty array (`.[1:]` of `[x]`) keeps the array's, so only a known
    -- common origin decides
    if a.isEmpty && b.isEmpty then (match identEq s.id c.wid with | some true => some true | _ => none)
    else if a.length != b.length then some false
    else identEq s.id c.wid
  | .obj a, .obj b => if a.length != b.length then some false else identEq s.id c.wid
  | .arr _, _ | .obj _, _ | _, .arr _ | _, .obj _ => some false
  | .num (.int a), .num (.int b) =>
    -- *big.Int values are compared by pointer
    if InRange a ∧ InRange b then some (a == b) else if a == b then none else some false
  | .num .nan, .num .nan => some true
  | .num (.flt a), .num (.flt b) => some (a == b)
  | .num .nzero, .num .nzero => some true
  | .num .nzero, .num (.flt q) | .num (.flt q), .num .nzero => some (q == 0)   -- Go: -0.0 == 0.0
  | .num (.inf a), .num (.inf b) => some (a == b)
  | .num _, .num _ => some false
  | a, b => some (a == b)

def childIdent (id : Ident) (k : JV) : Ident :=
  match id with
  | .known r p => .known r (p ++ [k])
  | _ => .unknown

/-- after a navigation step `k` from `s` that produced `w`: the new state, with the path
    recorded when tracking is on (error / unmodelled when the source is not intact) -/
def navigated (s : St) (k : JV) (w : JV) (iter : Bool := false) : Res :=
  match s.ctx with
  | none => .one { v := w, id := childIdent s.id k, ctx := none }
  | some c =>
    match pathIntact s c with
    | some true =>
      let wid := childIdent c.wid k
      .one { v := w, id := wid, ctx := some { path := c.path ++ [k], w := w, wid := wid } }
    | some false => .fail (.builtin (if iter then "invalidPathIter" else "invalidPath") [s.v])
    | none => .unmodelled "pathIntact: pointer identity not decidable in the model"

/-- a computed value: tracking context unchanged, identity fresh for containers -/
def computed (s : St) (w : JV) : St := { v := w, id := .fresh, ctx := s.ctx }

def withCtx (ctx : Option PCtx) (s : St) : St := { s with ctx := ctx }

/-! ### helpers on values -/

def jvStr (s : String) : JV := .str (B s)

def dropFirst (s : String) : String := String.ofList (s.toList.drop 1)

/-- `.[]` on a value: the (key, value) pairs in iteration order (objects: sorted keys) -/
def iterItems : JV → Option (List (JV × JV))
  | .arr xs => some ((List.range xs.length).zip xs |>.map fun (i, x) => (jvInt (i : Nat), x))
  | .obj kvs => some (kvs.map fun (k, x) => (.str k, x))
  | _ => none

/-- the result of a native handed the values `given` -/
def resultOf (given : List JV) (s : St) (w : JV) : St := { v := w, id := resultIdent given w, ctx := s.ctx }

def nativeRes (s : St) (name : String) (r : Option NRes) (given : List JV) : Res :=
  match r with
  | none => .unmodelled s!"native {name}"
  | some (.ok w) => .one (resultOf given s w)
  | some (.error (.builtin "UNMODELLED" _)) => .unmodelled s!"native {name}: value outside the model"
  | some (.error e) => .fail e

/-- value-level `setpath` (func.go `update` without an allocator) -/
def setpathFuel : Nat → JV → List JV → JV → Except Err JV
  | 0, _, _, _ => throw (.builtin "UNMODELLED" [])
  | _, _, [], n => pure n
  | fuel + 1, v, k :: rest, n =>
    match k with
    | .str key =>
      match v with
      | .null => do let u ← setpathFuel fuel .null rest n; pure (.obj [(key, u)])
      | .obj kvs => do
        let u ← setpathFuel fuel ((kvLookup key kvs).getD .null) rest n
        pure (.obj (kvInsert key u kvs))
      | v => throw (errExpectedObject v)
    | .num _ =>
      let i := (toInt? k).getD 0
      let vs : Option (List JV) := match v with | .null => some [] | .arr vs => some vs | _ => none
      match vs with
      | none => throw (errExpectedArray v)
      | some vs =>
        let j := clampIndex i (-1) vs.length
        if j < 0 then throw (.builtin "arrayIndexNegative" [jvInt i])
        else if j < vs.length then do
          let u ← setpathFuel fuel (vs.getD j.toNat .null) rest n
          pure (.arr (vs.set j.toNat u))
        else if i ≥ 536870912 then throw (.builtin "arrayIndexTooLarge" [jvInt i])
        else do
          let u ← setpathFuel fuel .null rest n
          pure (.arr (vs ++ List.replicate (i.toNat - vs.length) .null ++ [u]))
    | .obj m =>
      let vs : Option (List JV) := match v with | .null => some [] | .arr vs => some vs | _ => none
      match vs with
      | none => throw (errExpectedArray v)
      | some vs =>
        match kvLookup (B "start") m, kvLookup (B "end") m with
        | some s, some e =>
          match sliceBounds vs.length e s (fun x => .builtin "arrayIndexNotNumber" [x]) with
          | .error err => throw err
          | .ok (a, b) => do
            let u ← setpathFuel fuel (.arr ((vs.drop a).take (b - a))) rest n
            match u with
            | .arr us => pure (.arr (vs.take a ++ us ++ vs.drop b))
            | u => throw (errExpectedArray u)
        | _, _ => throw (.builtin "expectedStartEnd" [k])
    | k =>
      match v with
      | .arr _ => throw (.builtin "arrayIndexNotNumber" [k])
      | _ => throw (.builtin "objectKeyNotString" [k])

/-- `func1WrapError` / `func2WrapError`: the inner error's text is part of the message -/
def wrapErr1 (name : String) (v w : JV) (inner : Err) : Err :=
  .builtin "func1wrap" [.str (B name), v, w, match inner.message with | some m => .str m | none => .null]
def wrapErr2 (name : String) (v w x : JV) (inner : Err) : Err :=
  .builtin "func2wrap" [.str (B name), v, w, x, match inner.message with | some m => .str m | none => .null]

/-- error text including the wrap errors raised by getpath/setpath/delpaths -/
def errMessage (e : Err) : Option Bytes :=
  match e with
  | .builtin "func1wrap" [.str name, v, w, .str inner] => do
    let pv ← preview v; let pw ← preview w
    pure (name ++ B "(" ++ pw ++ B ") cannot be applied to " ++ pv ++ B ": " ++ inner)
  | .builtin "func2wrap" [.str name, v, w, x, .str inner] => do
    let pv ← preview v; let pw ← preview w; let px ← preview x
    pure (name ++ B "(" ++ pw ++ B "; " ++ px ++ B ") cannot be applied to " ++ pv ++ B ": " ++ inner)
  | .builtin "func1wrap" _ | .builtin "func2wrap" _ => none
  | e => e.message

def setpathV (v : JV) (p : List JV) (n : JV) : Except Err JV :=
  match setpathFuel (p.length + 1) v p n with
  | .ok u => .ok u
  | .error (.builtin "UNMODELLED" a) => .error (.builtin "UNMODELLED" a)
  | .error e => .error (wrapErr2 "setpath" v (.arr p) n e)

/-- `funcGetpath` with its wrap error -/
def getpathV (v : JV) (path : List JV) : Except Err JV :=
  let rec go (cur : JV) : List JV → Except Err JV
    | [] => pure cur
    | x :: rest =>
      match cur with
      | .null | .arr _ | .obj _ =>
        (match funcIndex2 cur x with
         | .ok w => go w rest
         | .error e => throw (wrapErr1 "getpath" v (.arr path) e))
      | _ => throw (errFunc1 "getpath" v (.arr path))
  go v path

/-! ### constant paths (query.go: toIndexKey / toIndices) -/

/-- `(*Term).toNumber` / `(*Unary).toNumber` -/
def termNumber? : Term → Option JV
  | .mk (.number text) [] => (parseNumberLit text).map .num
  | _ => none

def unaryNumber? (op : Op) (t : Term) : Option JV :=
  match termNumber? t with
  | some (.num n) => some (.num (if op == .sub then opNegNum n else n))
  | _ => none

/-- `(*Term).toIndexKey` (a term with suffixes is not a constant) -/
def termIndexKey? : Term → Option JV
  | .mk (.number text) [] => (parseNumberLit text).map .num
  | .mk (.unary op t) [] => unaryNumber? op t
  | .mk (.str (.lit b)) [] => some (.str b)
  | _ => none

def queryIndexKey? : Query → Option JV
  | .term _ t => termIndexKey? t
  | _ => none

/-- `(*Index).toIndexKey` -/
def indexKey? : Index → Option JV
  | .name n => some (.str n)
  | .str (.lit b) => some (.str b)
  | .str _ => none
  | .at q => queryIndexKey? q
  | .slice a b =>
    let start : Option (Option JV) := match a with
      | none => some none
      | some q => (queryIndexKey? q).map some
    match start with
    | none => none
    | some st =>
      let end_ : Option (Option JV) := match b with
        | none => some none
        | some q => (queryIndexKey? q).map some
      match end_ with
      | none => none
      | some en => some (.obj [(B "end", en.getD .null), (B "start", st.getD .null)])

/-- `(*Query).toIndices(nil)`: the constant path denoted by `.a[0][1:2]…`, if it is one
    (`none` also for the empty path: the Go code tests `xs != nil`) -/
def constPathAux : Nat → Query → List JV → Option (List JV)
  | 0, _, _ => none
  | fuel + 1, q, xs =>
    match q with
    | .term _ (.mk core sfx) =>
      let start : Option (List JV) := match core with
        | .index i => (indexKey? i).map fun k => xs ++ [k]
        | .query q' => constPathAux fuel q' xs
        | _ => none
      sfx.foldl (fun acc sf => match acc, sf with
        | some xs, .index i => (indexKey? i).map fun k => xs ++ [k]
        | _, _ => none) start
    | _ => none

def constPath (q : Query) : Option (List JV) :=
  match constPathAux 64 q [] with
  | some [] => none
  | r => r

/-! ### the evaluator -/

/-- parameters shared by a whole evaluation -/
structure Cfg where
  builtins : Builtins

def boolJV (b : Bool) : JV := .bool b


/-! ### list-level combinators used by the evaluator (kept outside the mutual block so that
    the evaluator itself is structurally recursive on its fuel) -/

/-- names bound by a pattern (fuel: `Pattern` is a nested inductive) -/
def patNames : Nat → Pattern → List String
  | 0, _ => []
  | fuel + 1, p =>
    match p with
    | .var n => [n]
    | .array ps => ps.flatMap (patNames fuel)
    | .object kvs => kvs.flatMap fun
      | .mk key val =>
        (match key with | .var n => [n] | _ => []) ++ (match val with | some q => patNames fuel q | none => [])

/-- all `$names` of the alternatives bound to null -/
def nullVars (pats : List Pattern) (env : Env) : Env :=
  (pats.flatMap (patNames 64)).foldl (fun e n => e.push (.var n .null .fresh)) env

/-- run `f` on each environment in order, concatenating the streams -/
def forEnvs (envs : List Env) (f : Env → Res) : Res :=
  envs.foldl (fun (acc : Res) env' => acc.append fun _ => f env') .empty

/-- the outcome of binding a pattern: the environments produced IN ORDER, then how the
    enumeration ended.  Patterns are generators (object keys may be generator queries) and the
    body runs for each environment as it is produced, so an error of the pattern raised after some
    environments comes AFTER whatever the body did with those (it is not raised up front). -/
structure PatRes where
  envs : List Env
  stop : Stop := .done

def PatRes.ok (es : List Env) : PatRes := ⟨es, .done⟩
def PatRes.fail (st : Stop) : PatRes := ⟨[], st⟩

/-- sequencing over environments: `f` on each in order; the first non-`done` stop ends it -/
def expandEnvs (f : Env → PatRes) (final : Stop) : List Env → PatRes
  | [] => ⟨[], final⟩
  | e :: rest =>
    let r := f e
    match r.stop with
    | .done => let r2 := expandEnvs f final rest; ⟨r.envs ++ r2.envs, r2.stop⟩
    | st => ⟨r.envs, st⟩

/-- evaluate argument queries as values, the LAST one in the outermost loop, threading the
    tracking context; `k` receives the values in argument order -/
def evalArgsK (evalArg : Query → Option PCtx → Res) : List Query → Option PCtx → List JV → (List JV → Option PCtx → Res) → Res
  | [], ctx, acc, k => k acc ctx
  | a :: rest, ctx, acc, k =>
    (evalArg a ctx).bind fun av => evalArgsK evalArg rest av.ctx (av.v :: acc) k

/-- bind `$` parameters left to right, each an outer loop of the next -/
def bindValsK (evalArg : Query → Res) (body : Env → Res) : List (String × Query) → Env → Res
  | [], env => body env
  | (p, a) :: rest, env =>
    (evalArg a).bind fun av => bindValsK evalArg body rest (env.push (.var p av.v av.id))

/-- the `foreach` loop: thread the state through every output of `update`, emitting extract -/
def foreachOuts (ext : St → Res) (final : Stop) : List St → JV → Ident → List St → Res × JV × Ident
  | [], sv, sid, acc => (⟨acc, final⟩, sv, sid)
  | u :: urest, _, _, acc =>
    let re := ext u
    match re.stop with
    | .done => foreachOuts ext final urest u.v u.id (acc ++ re.outs)
    | st => (⟨acc ++ re.outs, st⟩, u.v, u.id)

def foreachEnvs (upd : Env → JV → Ident → Res) (ext : Env → St → Res) : List Env → JV → Ident → List St → Res × JV × Ident
  | [], sv, sid, acc => (⟨acc, .done⟩, sv, sid)
  | env' :: erest, sv, sid, acc =>
    let ru := upd env' sv sid
    let (r1, sv', sid') := foreachOuts (ext env') ru.stop ru.outs sv sid acc
    match r1.stop with
    | .done => foreachEnvs upd ext erest sv' sid' r1.outs
    | _ => (r1, sv', sid')

def foreachLoop (bindPat : St → PatRes) (upd : St → Env → JV → Ident → Res) (ext : Env → St → Res)
    (final : Stop) : List St → JV → Ident → List St → Res
  | [], _, _, acc => ⟨acc, final⟩
  | x :: rest, sv, sid, acc =>
    let pr := bindPat x
    let (r1, sv', sid') := foreachEnvs (upd x) ext pr.envs sv sid acc
    match r1.stop with
    | .done =>
      (match pr.stop with
       | .done => foreachLoop bindPat upd ext final rest sv' sid' r1.outs
       | st => ⟨r1.outs, pendStop x.pend st⟩)
    | st => ⟨r1.outs, pendStop x.pend st⟩

/-- string interpolation `p₁ + p₂ + … + pₙ` (left-nested `+`): the LAST part is the outermost
    loop.  `parts` is given reversed. -/
def interpK (part : Query → Option PCtx → Res) (s : St) : List Query → Option PCtx → Res
  | [], ctx => .one { v := .str [], id := .fresh, ctx := ctx }
  | [p], ctx => part p ctx
  | last :: initRev, ctx =>
    (part last ctx).bind fun y =>
      (interpK part s initRev y.ctx).bind fun x =>
        match x.v, y.v with
        | .str a, .str b => .one { v := .str (a ++ b), id := .fresh, ctx := x.ctx }
        | a, b => nativeRes x "_add" (callNative "_add" s.v [a, b]) [s.v, a, b]

/-- array pattern `[p₀, p₁, …]`: `cur` = the environments after the patterns before `p` -/
def bindArrayK (bindOne : Env → Pattern → JV → Ident → PatRes) (xv : JV) (xid : Ident) :
    List Pattern → Nat → PatRes → PatRes
  | [], _, cur => cur
  | p :: rest, i, cur =>
    let next := expandEnvs (fun env' =>
      match funcIndex2 xv (jvInt (i : Nat)) with
      | .error e => PatRes.fail (.err e)
      | .ok w => bindOne env' p w (childIdent xid (jvInt (i : Nat)))) cur.stop cur.envs
    bindArrayK bindOne xv xid rest (i + 1) next

/-- the keys of one object-pattern entry, in order, then how their enumeration ended -/
abbrev KeysRes := List JV × Stop

/-- bind one entry `key: val` for each key in order -/
def bindKeysK (bindOne : Env → Pattern → JV → Ident → PatRes) (xv : JV) (xid : Ident)
    (key : ObjKey) (val : Option Pattern) (env' : Env) (final : Stop) : List JV → PatRes
  | [] => ⟨[], final⟩
  | k :: ks =>
    let r : PatRes :=
      match funcIndex2 xv k with
      | .error e => PatRes.fail (.err e)
      | .ok w =>
        let wid := childIdent xid k
        let env1 := match key with
          | .var n => env'.push (.var n w wid)
          | _ => env'
        match val with
        | none => PatRes.ok [env1]
        | some vp => bindOne env1 vp w wid
    match r.stop with
    | .done => let r2 := bindKeysK bindOne xv xid key val env' final ks; ⟨r.envs ++ r2.envs, r2.stop⟩
    | st => ⟨r.envs, st⟩

/-- object pattern `{k: p, $v, …}` -/
def bindObjectK (keysOf : Env → ObjKey → KeysRes)
    (bindOne : Env → Pattern → JV → Ident → PatRes) (xv : JV) (xid : Ident) :
    List PatKV → PatRes → PatRes
  | [], cur => cur
  | .mk key val :: rest, cur =>
    let next := expandEnvs (fun env' =>
      let (ks, kstop) := keysOf env' key
      bindKeysK bindOne xv xid key val env' kstop ks) cur.stop cur.envs
    bindObjectK keysOf bindOne xv xid rest next

/-- the reduce loop -/
def reduceStep (bindPat : St → PatRes) (upd : St → Env → JV → Ident → Res)
    (acc : Except Stop (JV × Ident)) (x : St) : Except Stop (JV × Ident) :=
  match acc with
  | .error e => .error e
  | .ok (sv, sid) =>
    let pr := bindPat x
    let r : Except Stop (JV × Ident) := pr.envs.foldl (fun (acc : Except Stop (JV × Ident)) env' =>
      match acc with
      | .error e => .error e
      | .ok (sv, sid) =>
        let ru := upd x env' sv sid
        match ru.stop with
        | .done => (match ru.outs.getLast? with
          | some l => .ok (l.v, l.id)
          | none => .ok (sv, sid))
        | st => .error (pendStop x.pend st)) (.ok (sv, sid))
    match r, pr.stop with
    | .error e, _ => .error e
    | .ok st', .done => .ok st'
    | .ok _, st => .error (pendStop x.pend st)

/-- `.[]` -/
def iterate (x : St) : Res :=
  match iterItems x.v with
  | none => .fail (.builtin "iterator" [x.v])
  | some items =>
    match x.ctx with
    | none => ⟨items.map fun (k, w) => { v := w, id := childIdent x.id k, ctx := none }, .done⟩
    | some c =>
      match pathIntact x c with
      | some true =>
        ⟨items.map fun (k, w) =>
          let wid := childIdent c.wid k
          { v := w, id := wid, ctx := some { path := c.path ++ [k], w := w, wid := wid } }, .done⟩
      | some false => .fail (.builtin "invalidPathIter" [x.v])
      | none => .unmodelled "pathIntact: pointer identity not decidable in the model"

/-- `try body` without catch: any catchable error ends the stream silently -/
def catchAll (r : Res) : Res :=
  match r.stop with
  | .err (.brk _) | .err (.halt _ _) => r
  | .err _ => ⟨r.outs, .done⟩
  | _ => r


mutual

/-- `eval fuel cfg env q s` -/
def eval : Nat → Cfg → Env → Query → St → Res
  | 0, _, _, _, _ => .outOfFuel
  | fuel + 1, cfg, env, q, s =>
    let env := env.defs q.defs
    match q with
    | .term _ t => evalTerm fuel cfg env t s
    | .bind _ src pats body =>
      -- `src as p₁ ?// p₂ … | body`: the source is evaluated without path tracking
      (eval fuel cfg env src (withCtx none s)).bind fun x =>
        evalAlts fuel cfg env pats pats x.v x.id body s
    | .binop _ op l r =>
      match op with
      | .pipe => (eval fuel cfg env l s).bind fun x => eval fuel cfg env r x
      | .comma => (eval fuel cfg env l s).append fun _ => eval fuel cfg env r s
      | .alt =>
        -- outputs of `l` that are neither false nor null; if there is none, `r`.
        -- (errors of `l` are NOT suppressed by gojq: the stream ends with the error)
        let rl := eval fuel cfg env l s
        let truthy := rl.outs.filter fun x => !isFalsy x.v
        match rl.stop with
        | .done => if truthy.isEmpty then eval fuel cfg env r s else ⟨truthy, .done⟩
        | st => if truthy.isEmpty then ⟨[], st⟩ else ⟨truthy, st⟩
      | .and =>
        (eval fuel cfg env l (withCtx none s)).bind fun x =>
          if isFalsy x.v then .one (computed s (.bool false))
          else (eval fuel cfg env r (withCtx none s)).bind fun y => .one (computed s (.bool (!isFalsy y.v)))
      | .or =>
        (eval fuel cfg env l (withCtx none s)).bind fun x =>
          if !isFalsy x.v then .one (computed s (.bool true))
          else (eval fuel cfg env r (withCtx none s)).bind fun y => .one (computed s (.bool (!isFalsy y.v)))
      | .add => evalBinNative fuel cfg env "_add" l r s
      | .sub => evalBinNative fuel cfg env "_subtract" l r s
      | .mul => evalBinNative fuel cfg env "_multiply" l r s
      | .div => evalBinNative fuel cfg env "_divide" l r s
      | .mod => evalBinNative fuel cfg env "_modulo" l r s
      | .eq => evalBinNative fuel cfg env "_equal" l r s
      | .ne => evalBinNative fuel cfg env "_notequal" l r s
      | .gt => evalBinNative fuel cfg env "_greater" l r s
      | .lt => evalBinNative fuel cfg env "_less" l r s
      | .ge => evalBinNative fuel cfg env "_greatereq" l r s
      | .le => evalBinNative fuel cfg env "_lesseq" l r s
      | .assign => evalAssign fuel cfg env l r s
      | .modify => evalModify fuel cfg env l (.inl r) s
      | .updAdd => evalArithUpdate fuel cfg env "_add" l r s
      | .updSub => evalArithUpdate fuel cfg env "_subtract" l r s
      | .updMul => evalArithUpdate fuel cfg env "_multiply" l r s
      | .updDiv => evalArithUpdate fuel cfg env "_divide" l r s
      | .updMod => evalArithUpdate fuel cfg env "_modulo" l r s
      | .updAlt => evalArithUpdate fuel cfg env "_alternative" l r s

/-- binary native `l op r`: the RIGHT operand is the outer loop -/
def evalBinNative : Nat → Cfg → Env → String → Query → Query → St → Res
  | 0, _, _, _, _, _, _ => .outOfFuel
  | fuel + 1, cfg, env, name, l, r, s =>
    (eval fuel cfg env r s).bind fun y =>
      (eval fuel cfg env l { s with ctx := y.ctx }).bind fun x =>
        -- `funcOpAdd` returns one of its operands unchanged (same pointer) when the other is
        -- null or an empty array/object
        let isUnit (v : JV) : Bool := match v with | .null => true | .arr [] => true | .obj [] => true | _ => false
        let sameKind (a b : JV) : Bool := match a, b with
          | .null, _ => true | .arr _, .arr _ => true | .obj _, .obj _ => true | _, _ => false
        if name == "_add" && isUnit x.v && sameKind x.v y.v then .one { v := y.v, id := y.id, ctx := x.ctx }
        else if name == "_add" && isUnit y.v && sameKind y.v x.v then .one { v := x.v, id := x.id, ctx := x.ctx }
        else nativeRes x name (callNative name s.v [x.v, y.v]) [s.v, x.v, y.v]

/-- a term with its suffix list: the last suffix is applied to the term without it -/
def evalTerm : Nat → Cfg → Env → Term → St → Res
  | 0, _, _, _, _ => .outOfFuel
  | fuel + 1, cfg, env, .mk core sfx, s =>
    match sfx.reverse with
    | [] => evalCore fuel cfg env core s
    | last :: revInit =>
      let t' : Term := .mk core revInit.reverse
      match last with
      | .iter => (evalTerm fuel cfg env t' s).bind fun x => iterate x
      | .index i => evalIndex fuel cfg env t' i s
      | .optional =>
        -- `t?` = try t; if the previous suffix is an index/iter it alone is tried after
        -- evaluating the rest (compileTermSuffix), which is observationally `try t`
        -- except that errors of the prefix are not caught:
        match revInit with
        | (.index i) :: revInit' =>
          let t'' : Term := .mk core revInit'.reverse
          (evalTerm fuel cfg env t'' s).bind fun x =>
            catchAll (evalIndex fuel cfg env (.mk .identity []) i x)
        | .iter :: revInit' =>
          let t'' : Term := .mk core revInit'.reverse
          (evalTerm fuel cfg env t'' s).bind fun x => catchAll (iterate x)
        | _ => catchAll (evalTerm fuel cfg env t' s)

/-- `t.[…]` for the four index forms -/
def evalIndex : Nat → Cfg → Env → Term → Index → St → Res
  | 0, _, _, _, _, _ => .outOfFuel
  | fuel + 1, cfg, env, t, i, s =>
    let navKey (k : JV) : Res :=
      (evalTerm fuel cfg env t s).bind fun x =>
        match funcIndex2 x.v k with
        | .ok w => navigated x k w
        | .error e => .fail e
    match i with
    | .name n => navKey (.str n)
    | .str (.lit b) => navKey (.str b)
    | .str str =>
      -- `_index(t; "…\(…)…")`: the key is evaluated first, without tracking
      (evalStr fuel cfg env str none (withCtx none s)).bind fun k =>
        (evalTerm fuel cfg env t s).bind fun x =>
          match funcIndex2 x.v k.v with
          | .ok w => navigated x k.v w
          | .error e => .fail e
    | .at q =>
      (eval fuel cfg env q (withCtx none s)).bind fun k =>
        (evalTerm fuel cfg env t s).bind fun x =>
          match funcIndex2 x.v k.v with
          | .ok w => navigated x k.v w
          | .error e => .fail e
    | .slice a b =>
      -- `_slice(t; end; start)`: start is evaluated first (outermost), then end, then t
      let evalOpt (q : Option Query) : Res :=
        match q with
        | none => .one { v := .null }
        | some q => eval fuel cfg env q (withCtx none s)
      (evalOpt a).bind fun st =>
        (evalOpt b).bind fun en =>
          (evalTerm fuel cfg env t s).bind fun x =>
            match funcSlice x.v en.v st.v with
            | .ok w => navigated x (.obj [(B "end", en.v), (B "start", st.v)]) w
            | .error e => .fail e

def evalCore : Nat → Cfg → Env → TermCore → St → Res
  | 0, _, _, _, _ => .outOfFuel
  | fuel + 1, cfg, env, core, s =>
    match core with
    | .identity => .one s
    | .recurse => evalCall fuel cfg env "recurse" [] s
    | .null => .one (computed s .null)
    | .true_ => .one (computed s (.bool true))
    | .false_ => .one (computed s (.bool false))
    | .number text =>
      match parseNumberLit text with
      | some n => .one (computed s (.num n))
      | none => .unmodelled s!"number literal {text}"
    | .str str => evalStr fuel cfg env str none s
    | .format fmt none => evalFormat fuel cfg env fmt s
    | .format fmt (some str) => evalStr fuel cfg env str (some fmt) s
    | .index i => evalIndex fuel cfg env (.mk .identity []) i s
    | .query q => eval fuel cfg env q s
    | .unary op t =>
      (evalTerm fuel cfg env t s).bind fun x =>
        let name := if op == .sub then "_negate" else "_plus"
        nativeRes x name (callNative name x.v []) [x.v]
    | .array none => .one (computed s (.arr []))
    | .array (some q) =>
      let r := eval fuel cfg env q s
      match r.stop with
      | .done => .one (computed s (.arr (r.outs.map (·.v))))
      | st => ⟨[], st⟩
    | .object kvs => evalObject fuel cfg env kvs [] s s.ctx
    | .if_ c t elifs e =>
      (eval fuel cfg env c (withCtx none s)).bind fun x =>
        if !isFalsy x.v then eval fuel cfg env t s
        else match elifs with
          | (c', t') :: rest => evalCore fuel cfg env (.if_ c' t' rest e) s
          | [] => match e with
            | some e => eval fuel cfg env e s
            | none => .one s
    | .try_ body catch_ =>
      let r := eval fuel cfg env body s
      match r.stop with
      | .err (.brk _) | .err (.halt _ _) => r
      | .err e =>
        match catch_ with
        | none => ⟨r.outs, .done⟩
        | some c =>
          let msg : Option JV := match e with
            | .user v => some v
            | e => (errMessage e).map .str
          match msg with
          | none => ⟨r.outs, .unmodelled "catch: message of a built-in error not computed by the model"⟩
          | some m =>
            -- `error(v)` hands `v` itself to the handler: a container keeps whatever identity it had
            let caught : St := { v := m, id := if isContainer m then .unknown else .fresh, ctx := s.ctx }
            (⟨r.outs, .done⟩ : Res).append fun _ => eval fuel cfg env c caught
      | _ => r
    | .reduce src pat start update =>
      -- start (tracked), then for each output of src bind the pattern and run update on the
      -- state; the LAST output of update becomes the state; empty keeps it
      (eval fuel cfg env start s).bind fun st0 =>
        let rs := eval fuel cfg env src { s with ctx := st0.ctx }
        let step := reduceStep (fun x => bindPattern fuel cfg env pat x.v x.id x.ctx)
          (fun x env' sv sid => eval fuel cfg env' update { v := sv, id := sid, ctx := x.ctx })
        match rs.outs.foldl step (.ok (st0.v, st0.id)) with
        | .error st => ⟨[], st⟩
        | .ok (sv, sid) =>
          match rs.stop with
          | .done => .one { v := sv, id := sid, ctx := st0.ctx }
          | st => ⟨[], st⟩
    | .foreach src pat start update extract =>
      (eval fuel cfg env start s).bind fun st0 =>
        let rs := eval fuel cfg env src { s with ctx := st0.ctx }
        foreachLoop (fun x => bindPattern fuel cfg env pat x.v x.id x.ctx)
          (fun x env' sv sid => eval fuel cfg env' update { v := sv, id := sid, ctx := x.ctx })
          (fun env' u => match extract with
            | none => Res.one u
            | some e => eval fuel cfg env' e u)
          rs.stop rs.outs st0.v st0.id []
    | .label name body =>
      -- the fuel value identifies this activation uniquely among its dynamic ancestors
      let id := fuel
      let r := eval fuel cfg (env.push (.label name id)) body s
      match r.stop with
      | .err (.brk id') => if id' == id then ⟨r.outs, .done⟩ else r
      | _ => r
    | .break_ name =>
      match lookupLabel name env.bs with
      | some id => .fail (.brk id)
      | none => .unmodelled "break: label not defined (compile error)"
    | .func name args => evalCall fuel cfg env name args s

/-- string literal / interpolation; `fmt` is the `@format` applied to interpolated values:
    compileString builds `q₁ + q₂ + …` where a non-string part `e` is `e | tostring` (or the
    format function) -/
def evalStr : Nat → Cfg → Env → Str → Option String → St → Res
  | 0, _, _, _, _, _ => .outOfFuel
  | fuel + 1, cfg, env, str, fmt, s =>
    match str with
    | .lit b => .one (computed s (.str b))
    | .interp parts =>
      let part (p : Query) (ctx : Option PCtx) : Res :=
        let isStrLit : Bool := match p with
          | .term _ (.mk (.str _) []) => true
          | _ => false
        if isStrLit then eval fuel cfg env p { s with ctx := ctx }
        else (eval fuel cfg env p { s with ctx := ctx }).bind fun x =>
          evalFormat fuel cfg env (fmt.getD "@text") x
      interpK part s parts.reverse s.ctx

/-- `@format` as a filter -/
def evalFormat : Nat → Cfg → Env → String → St → Res
  | 0, _, _, _, _ => .outOfFuel
  | _ + 1, _, _, fmt, s =>
    -- compiler.go formatToFunc; an unknown format is `format("name")`
    let name : Option String := match fmt with
      | "@text" => some "tostring" | "@json" => some "tojson" | "@html" => some "_tohtml"
      | "@uri" => some "_touri" | "@urid" => some "_tourid" | "@csv" => some "_tocsv"
      | "@tsv" => some "_totsv" | "@sh" => some "_tosh" | "@base64" => some "_tobase64"
      | "@base64d" => some "_tobase64d" | _ => none
    match name with
    | some n => nativeRes s n (callNative n s.v []) [s.v]
    | none => nativeRes s "format" (callNative "format" s.v [.str (B (dropFirst fmt))]) [s.v]

/-- `{k₁: v₁, …}`: keys and values are evaluated pair by pair; the first pair is the
    outermost loop; duplicate keys: the FIRST evaluated pair... (opobject pops pairs from the
    top of the stack, i.e. last pair first, and keeps the first it sees) wins = the last pair -/
def evalObject : Nat → Cfg → Env → List ObjKV → List (JV × JV) → St → Option PCtx → Res
  | 0, _, _, _, _, _, _ => .outOfFuel
  | fuel + 1, cfg, env, kvs, acc, s, ctx =>
    match kvs with
    | [] =>
      -- `opobject` pops the pairs last first: the LAST non-string key is reported, and a later
      -- pair overrides an earlier one with the same key
      match acc.reverse.find? (fun (k, _) => match k with | .str _ => false | _ => true) with
      | some (k, _) => .fail (.builtin "objectKeyNotString" [k])
      | none =>
        .one { v := JV.mkObj (acc.filterMap fun (k, v) => match k with | .str b => some (b, v) | _ => none),
               id := .fresh, ctx := ctx }
    | .mk key val :: rest =>
      let s0 : St := { s with ctx := ctx }
      let keyRes : Res := match key with
        | .name k => .one (computed s0 (.str k))
        | .var name =>
          (match val with
           | none => Res.one (computed s0 (.str (B (dropFirst name))))
           | some _ => evalCall fuel cfg env name [] s0)
        | .str str => evalStr fuel cfg env str none s0
        | .query q => eval fuel cfg env q s0
      keyRes.bind fun k =>
        let s1 : St := { s with ctx := k.ctx }
        let valRes : Res := match val with
          | some q => eval fuel cfg env q s1
          | none => match key with
            | .name kk => (match funcIndex2 s.v (.str kk) with
                | .ok w => navigated s1 (.str kk) w
                | .error e => .fail e)
            | .var name => evalCall fuel cfg env name [] s1
            | .str (.lit kk) => (match funcIndex2 s.v (.str kk) with
                | .ok w => navigated s1 (.str kk) w
                | .error e => .fail e)
            | .str _ => (match funcIndex2 s.v k.v with
                | .ok w => .one (computed s1 w)
                | .error e => .fail e)
            | .query _ => .unmodelled "object: (query) key without value"
        valRes.bind fun v => evalObject fuel cfg env rest (acc ++ [(k.v, v.v)]) s v.ctx

/-- try the alternatives of `?//` in order: every pattern variable of ALL alternatives is
    bound (to null unless bound by the chosen alternative); an error raised by the pattern
    or by the body makes the next alternative run -/
def evalAlts : Nat → Cfg → Env → List Pattern → List Pattern → JV → Ident → Query → St → Res
  | 0, _, _, _, _, _, _, _, _ => .outOfFuel
  | fuel + 1, cfg, env, allPats, pats, xv, xid, body, s =>
    match pats with
    | [] => .empty
    | [p] =>
      let env0 := if allPats.length > 1 then nullVars allPats env else env
      let pr := bindPattern fuel cfg env0 p xv xid none
      (forEnvs pr.envs fun env' => eval fuel cfg env' body s).append fun _ => ⟨[], pr.stop⟩
    | p :: rest =>
      let env0 := nullVars allPats env
      let pr := bindPattern fuel cfg env0 p xv xid none
      let attempt : Res :=
        (forEnvs pr.envs fun env' => eval fuel cfg env' body s).append fun _ => ⟨[], pr.stop⟩
      -- `opforkalt` intercepts every error (break and halt included) and runs the next alternative
      match attempt.stop with
      | .err _ => (⟨attempt.outs.map ({ · with pend := true }), .done⟩ : Res).append fun _ =>
          evalAlts fuel cfg env allPats rest xv xid body s
      | _ => ⟨attempt.outs.map ({ · with pend := true }), attempt.stop⟩

/-- destructuring: the environments produced by binding `p` to `x` (generators in object-key
    queries multiply them), in order, then how the enumeration ended -/
def bindPattern : Nat → Cfg → Env → Pattern → JV → Ident → Option PCtx → PatRes
  | 0, _, _, _, _, _, _ => PatRes.fail .fuel
  | fuel + 1, cfg, env, p, xv, xid, ctx =>
    match p with
    | .var n => PatRes.ok [env.push (.var n xv xid)]
    | .array ps =>
      match xv with
      | .null | .arr _ =>
        bindArrayK (fun env' p w wid => bindPattern fuel cfg env' p w wid ctx) xv xid ps 0 (PatRes.ok [env])
      | v => PatRes.fail (.err (errExpectedArray v))
    | .object kvs =>
      bindObjectK
        (fun env' key => match key with
          | .name k => ([.str k], .done)
          | .var n => ([.str (B (dropFirst n))], .done)
          | .str (.lit b) => ([.str b], .done)
          | .str str =>
            let r := evalStr fuel cfg env' str none { v := xv, id := xid }
            (r.outs.map (·.v), r.stop)
          | .query q =>
            let r := eval fuel cfg env' q { v := xv, id := xid }
            (r.outs.map (·.v), r.stop))
        (fun env' p w wid => bindPattern fuel cfg env' p w wid ctx) xv xid kvs (PatRes.ok [env])

/-- function call: lexical environment, then jq-defined builtins, then natives -/
def evalCall : Nat → Cfg → Env → String → List Query → St → Res
  | 0, _, _, _, _, _ => .outOfFuel
  | fuel + 1, cfg, env, name, args, s =>
    match lookupCall name args.length env.bs with
    | .var v id => .one { v := v, id := id, ctx := s.ctx }
    | .clo body cenv => eval fuel cfg cenv body s
    | .fn params body fenv _ => callDef fuel cfg env fenv params body args s
    | .none =>
      if name.startsWith "$" then
        if name == "$ENV" then .one (computed s (.obj []))
        else if name == "$__loc__" then .unmodelled "$__loc__"
        else .unmodelled s!"variable {name} not defined (compile error)"
      else
      match cfg.builtins.find name args.length with
      | some d =>
        -- a jq-defined builtin sees only builtins: its environment is the empty one
        callDef fuel cfg env (Env.empty.push (.fn d.name d.params d.body true)) d.params d.body args s
      | none =>
        match name, args with
        | "empty", [] => .empty
        | "env", [] => .one (computed s (.obj []))
        | "not", [] => .one (computed s (.bool (isFalsy s.v)))
        | "path", [f] =>
          -- a new tracking context rooted at the current value
          let rootId : Ident := match s.id with
            | .known r p => .known r p
            | _ => .known (fuel + 1) []
          let s0 : St := { v := s.v, id := rootId, ctx := some { path := [], w := s.v, wid := rootId } }
          (eval fuel cfg env f s0).bind fun x =>
            match x.ctx with
            | none => .unmodelled "path: tracking context lost"
            | some c =>
              match pathIntact x c with
              | some true => .one (computed s (.arr c.path))
              | some false => .fail (.builtin "invalidPath" [x.v])
              | none => .unmodelled "pathIntact: pointer identity not decidable in the model"
        | "getpath", [p] =>
          (eval fuel cfg env p (withCtx none s)).bind fun pv =>
            match pv.v with
            | .arr path =>
              match getpathV s.v path with
              | .error e => .fail e
              | .ok w =>
                match s.ctx with
                | none => .one { v := w, id := path.foldl childIdent s.id, ctx := none }
                | some c =>
                  match pathIntact s c with
                  | some true =>
                    let wid := path.foldl childIdent c.wid
                    .one { v := w, id := wid, ctx := some { path := c.path ++ path, w := w, wid := wid } }
                  | some false => .fail (.builtin "invalidPath" [s.v])
                  | none => .unmodelled "pathIntact: pointer identity not decidable in the model"
            | _ => .fail (errFunc1 "getpath" s.v pv.v)
        | "_range", [a, b, c] =>
          -- native iterator; arguments as values, last one outermost
          (eval fuel cfg env c s).bind fun cv =>
            (eval fuel cfg env b { s with ctx := cv.ctx }).bind fun bv =>
              (eval fuel cfg env a { s with ctx := bv.ctx }).bind fun av =>
                let isNum (v : JV) := match v with | .num _ => true | _ => false
                if !isNum av.v then .fail (errFunc0 "range" av.v)
                else if !isNum bv.v then .fail (errFunc0 "range" bv.v)
                else if !isNum cv.v then .fail (errFunc0 "range" cv.v)
                else match rangeList (fuel * 4 + 64) av.v bv.v cv.v with
                  | some xs => ⟨xs.map fun x => computed av x, .done⟩
                  | none => .outOfFuel
        | "_last", [g] =>
          -- hand-assembled `last(g)`: the last output of g, nothing if there is none
          let r := eval fuel cfg env g s
          (match r.stop with
           | .done => (match r.outs.getLast? with
             | some l => .one l
             | none => .empty)
           | st => ⟨[], st⟩)
        | "setpath", [p, v] =>
          (eval fuel cfg env v s).bind fun nv =>
            (eval fuel cfg env p { s with ctx := nv.ctx }).bind fun pv =>
              match pv.v with
              | .arr path =>
                (match setpathV s.v path nv.v with
                 | .ok u => .one (computed pv u)
                 | .error (.builtin "UNMODELLED" _) => .unmodelled "setpath"
                 | .error e => .fail e)
              | other => .fail (errFunc1 "setpath" s.v other)
        | "input", [] | "inputs", [] | "debug", _ | "stderr", _ | "input_line_number", _
        | "now", _ | "localtime", _ | "builtins", _ | "modulemeta", _ | "halt_error", _ | "$__prog_args", _ =>
          .unmodelled s!"{name}: ambient or option-dependent"
        | _, _ =>
          -- generic native: arguments are evaluated as values, the LAST one in the outermost loop
          evalArgsK (fun a ctx => eval fuel cfg env a { s with ctx := ctx }) args.reverse s.ctx [] fun vals ctx =>
            nativeRes { s with ctx := ctx } name (callNative name s.v vals) (s.v :: vals)

/-- call of a `def`: `$x` parameters are evaluated (without tracking) in the caller's
    environment, in order, each being an outer loop of the next; filter parameters become
    closures over the caller's environment -/
def callDef : Nat → Cfg → Env → Env → List String → Query → List Query → St → Res
  | 0, _, _, _, _, _, _, _ => .outOfFuel
  | fuel + 1, cfg, callerEnv, fenv, params, body, args, s =>
    -- first bind every parameter as a closure, then evaluate the `$` ones left to right
    let envClo := (params.zip args).foldl (fun e (p, a) =>
      e.push (.clo (if p.startsWith "$" then dropFirst p else p) a callerEnv)) fenv
    let valueParams := (params.zip args).filter fun (p, _) => p.startsWith "$"
    bindValsK (fun a => eval fuel cfg callerEnv a (withCtx none s)) (fun env' => eval fuel cfg env' body s)
      valueParams envClo

/-- `l = r`: `reduce path(l) as $p (.; setpath($p; $x))` for each output `$x` of `r` -/
def evalAssign : Nat → Cfg → Env → Query → Query → St → Res
  | 0, _, _, _, _, _ => .outOfFuel
  | fuel + 1, cfg, env, l, r, s =>
    -- constant paths: `.a[0] = f` is compiled to `setpath(["a",0]; f)` (no path enumeration)
    match constPath l with
    | some path =>
      (eval fuel cfg env r s).bind fun x =>
        -- funcSetpathWithIndices: the constant indices are validated against the value first,
        -- so a type error is the one `path(l)` would raise
        match path.foldlM (fun w k => funcIndex2 w k) s.v with
        | .error e => .fail e
        | .ok _ =>
          match setpathV s.v path x.v with
          | .ok v => .one (resultOf [s.v, x.v] x v)
          | .error (.builtin "UNMODELLED" _) => .unmodelled "setpath"
          | .error e => .fail e
    | none =>
    (eval fuel cfg env r (withCtx none s)).bind fun x =>
      -- the paths are generated lazily: an error of setpath at one path comes before an error
      -- the path expression would raise later
      let (paths, pstop) := evalPaths fuel cfg env l s
      let res := paths.foldl (fun (acc : Except Err JV) p =>
        match acc with
        | .error e => .error e
        | .ok v => setpathV v p x.v) (.ok s.v)
      match res with
      | .error (.builtin "UNMODELLED" _) => .unmodelled "setpath"
      | .error e => .fail e
      | .ok v =>
        match pstop with
        | .done => .one (if paths.isEmpty then s else resultOf [s.v, x.v] s v)
        | st => ⟨[], st⟩

/-- the paths `path(l)` emits on the current value (in order) and how the enumeration ended -/
def evalPaths : Nat → Cfg → Env → Query → St → List (List JV) × Stop
  | 0, _, _, _, _ => ([], .fuel)
  | fuel + 1, cfg, env, l, s =>
    let r := evalCall fuel cfg env "path" [l] (withCtx none s)
    if r.outs.any (·.pend) then ([], .unmodelled "update through paths emitted under a pending `?//` alternative")
    else (r.outs.map fun o => match o.v with | .arr p => p | _ => [], r.stop)

/-- `l |= f` where `f` is a query (`.inl`) or `. op $x` for a fixed value (`.inr (name, x)`):
    `reduce path(l) as $p (.; first(setpath($p; getpath($p) | f)) // (record $p for deletion))`
    followed by `delpaths` of the recorded paths -/
def evalModify : Nat → Cfg → Env → Query → (Query ⊕ (String × JV)) → St → Res
  | 0, _, _, _, _, _ => .outOfFuel
  | fuel + 1, cfg, env, l, f, s =>
    match evalPaths fuel cfg env l s with
    | (paths, pstop) =>
      let step (acc : Except Stop (JV × List (List JV))) (p : List JV) : Except Stop (JV × List (List JV)) :=
        match acc with
        | .error e => .error e
        | .ok (v, dels) =>
          match getpathV v p with
          | .error e => .error (.err e)
          | .ok x =>
            let rf : Res := match f with
              | .inl q => eval fuel cfg env q { v := x }
              | .inr (name, y) => nativeRes { v := x } name (callNative name x [x, y]) [x, y]
            match rf.outs with
            | first :: _ =>
              -- `|=` takes the first output by `label $l | … | ., break $l`: a pending `?//`
              -- alternative inside the update query intercepts that break
              if first.pend then .error (.unmodelled "|= whose update query emits under a pending `?//` alternative") else
              (match setpathV v p first.v with
               | .ok u => .ok (u, dels)
               | .error (.builtin "UNMODELLED" _) => .error (.unmodelled "setpath")
               | .error e => .error (.err e))
            | [] =>
              match rf.stop with
              | .done => .ok (v, dels ++ [p])
              | st => .error st
      match paths.foldl step (.ok (s.v, [])) with
      | .error st => ⟨[], st⟩
      | .ok (v, dels) =>
        match pstop with
        | .done =>
          (match dels with
           | [] => .one (if paths.isEmpty then s
                         else if paths.any (·.isEmpty) then { v := v, id := .unknown, ctx := s.ctx }
                         else resultOf [s.v] s v)
           | _ :: _ => nativeRes s "delpaths" (callNative "delpaths" v [.arr (dels.map .arr)]) [v])
        | st => ⟨[], st⟩

/-- `l op= r`: for each output `$x` of `r` (evaluated on the original input): `l |= (. op $x)` -/
def evalArithUpdate : Nat → Cfg → Env → String → Query → Query → St → Res
  | 0, _, _, _, _, _, _ => .outOfFuel
  | fuel + 1, cfg, env, name, l, r, s =>
    (eval fuel cfg env r (withCtx none s)).bind fun x =>
      evalModify fuel cfg env l (.inr (name, x.v)) s

end

end Gojq.Spec

/-
  Consumers of the value order (DESIGN §6 C11), transliterating func.go / operator.go:
  `sortItems` (`sort.SliceStable` with `Compare(key_i, key_j) < 0`), `sortBy`, `funcGroupBy`,
  `uniqueBy`, `minMaxBy`, `funcBsearch` (the `sort.Search` loop), `indices`, the array case of
  `funcOpSub`, `funcKeys`, and object iteration (`opiter`).

  Go's `sort.SliceStable` is modelled as the stable insertion sort below; `Props/C11` proves
  that the result is the sorted, stable permutation, so any other stable algorithm computes
  the same list on the property's domain.  Core Lean only.
-/
import Gojq.Model.Compare
namespace Gojq

/-- a `sortItem` of func.go: the value and its precomputed key -/
abbrev Item := JV × JV

def Item.value (it : Item) : JV := it.1
def Item.key (it : Item) : JV := it.2

/-- the `less` callback of `sortItems`: `Compare(items[i].key, items[j].key) < 0` -/
def itemLt (a b : Item) : Bool := cmp a.2 b.2 == .lt

/-- insert `x` (which precedes every element of the list in the input) into a sorted list:
    it passes exactly the elements strictly smaller than it -/
def insertItem (x : Item) : List Item → List Item
  | [] => [x]
  | y :: ys => if itemLt y x then y :: insertItem x ys else x :: y :: ys

/-- stable sort of the items by key (`sort.SliceStable`) -/
def sortItems : List Item → List Item
  | [] => []
  | x :: xs => insertItem x (sortItems xs)

/-- outcome of a native: a value, or the error classes the sorting natives can produce -/
inductive SortErr where
  | type        -- func0TypeError / func1TypeError
  | length      -- lengthMismatchError
  deriving Repr, DecidableEq

/-- the argument checks shared by `sortItems` / `funcMinBy` / `funcMaxBy` -/
def mkItems (v x : JV) : Except SortErr (List Item) :=
  match v, x with
  | .arr vs, .arr xs => if vs.length = xs.length then .ok (vs.zip xs) else .error .length
  | _, _ => .error .type

/-- `sortBy(name, v, x)`: `sort` is `sortBy v v`, `sort_by(f)` is `_sort_by(map([f]))` -/
def sortBy (v x : JV) : Except SortErr JV := do
  let items ← mkItems v x
  pure (.arr ((sortItems items).map (·.1)))

def sort (v : JV) : Except SortErr JV := sortBy v v

/-- the loop of `funcGroupBy` after the first item, as a recursion on the remaining sorted items:
    `last` is the key the current group was opened with (`Compare(last, r.key) != 0` opens a new
    group and replaces `last`).  Returns the rest of the current group and the later groups. -/
def groupAux : JV → List Item → List Item × List (List Item)
  | _, [] => ([], [])
  | last, r :: rest =>
    if cmp last r.2 != .eq then
      let p := groupAux r.2 rest
      ([], (r :: p.1) :: p.2)
    else
      let p := groupAux last rest
      (r :: p.1, p.2)

/-- the groups `funcGroupBy` builds from the sorted items (`i == 0` opens the first group) -/
def groupItems : List Item → List (List Item)
  | [] => []
  | r :: rest =>
    let p := groupAux r.2 rest
    (r :: p.1) :: p.2

def groupBy (v x : JV) : Except SortErr JV := do
  let items ← mkItems v x
  pure (.arr ((groupItems (sortItems items)).map (fun g => .arr (g.map (·.1)))))

/-- the loop of `uniqueBy` after the first item; `last` is the key of the last kept item -/
def uniqueAux : JV → List Item → List Item
  | _, [] => []
  | last, r :: rest =>
    if cmp last r.2 != .eq then r :: uniqueAux r.2 rest else uniqueAux last rest

/-- the items `uniqueBy` keeps from the sorted items (`i == 0` keeps the first) -/
def uniqueItems : List Item → List Item
  | [] => []
  | r :: rest => r :: uniqueAux r.2 rest

def uniqueBy (v x : JV) : Except SortErr JV := do
  let items ← mkItems v x
  pure (.arr ((uniqueItems (sortItems items)).map (·.1)))

def unique (v : JV) : Except SortErr JV := uniqueBy v v

/-- the loop of `minMaxBy`: `if Compare(x, xs[i]) > 0 == isMin { j, x = i, xs[i] }` -/
def minMaxLoop (isMin : Bool) : Item → List Item → Item
  | best, [] => best
  | best, it :: rest =>
    if (cmp best.2 it.2 == .gt) == isMin then minMaxLoop isMin it rest else minMaxLoop isMin best rest

def minMaxItems (isMin : Bool) : List Item → JV
  | [] => .null
  | it :: rest => (minMaxLoop isMin it rest).1

def minMaxBy (isMin : Bool) (v x : JV) : Except SortErr JV := do
  let items ← mkItems v x
  pure (minMaxItems isMin items)

/-- `sort.Search(n, f)`: `i, j := 0, n; for i < j { h := (i+j)/2; if !f(h) { i = h+1 } else { j = h } }`.
    The fuel bounds the number of iterations (`j - i` strictly decreases; `n + 1` suffices). -/
def searchLoop (f : Nat → Bool) : Nat → Nat → Nat → Nat
  | 0, i, _ => i
  | fuel + 1, i, j =>
    if i < j then
      let h := (i + j) / 2
      if !f h then searchLoop f fuel (h + 1) j else searchLoop f fuel i h
    else i

def search (n : Nat) (f : Nat → Bool) : Nat := searchLoop f (n + 1) 0 n

/-- `funcBsearch` on an array -/
def bsearchList (vs : List JV) (t : JV) : Int :=
  let i := search vs.length (fun k => match vs[k]? with
    | some v => cmp v t != .lt
    | none => true)
  match vs[i]? with
  | some v => if cmp v t == .eq then (i : Int) else -(i : Int) - 1
  | none => -(i : Int) - 1

def bsearch (v t : JV) : Except SortErr JV :=
  match v with
  | .arr vs => .ok (.num (.int (bsearchList vs t)))
  | _ => .error .type

/-- `indices(vs, xs)`: `for i := range len(vs)-len(xs)+1 { if Compare(vs[i:i+len(xs)], xs) == 0 … }` -/
def indicesList (vs xs : List JV) : List Nat :=
  if xs.isEmpty then []
  else (List.range (vs.length + 1 - xs.length)).filter
    (fun i => cmpList ((vs.drop i).take xs.length) xs == .eq)

/-- `funcIndices` through `indexFunc`, array (and null) input only; strings are not modelled here -/
def indices (v x : JV) : Option (Except SortErr JV) :=
  match v with
  | .null => some (.ok .null)
  | .arr vs =>
    let xs := match x with
      | .arr xs => xs
      | x => [x]
    some (.ok (.arr ((indicesList vs xs).map (fun (i : Nat) => .num (.int (i : Int))))))
  | .str _ => none
  | _ => some (.error .type)

/-- the array case of `funcOpSub`: keep `l` unless some `r` compares equal -/
def arraySub (l r : List JV) : List JV :=
  l.filter (fun x => !r.any (fun y => cmp x y == .eq))

/-- `funcKeys`: indices of an array, sorted keys of an object -/
def keys : JV → Except SortErr JV
  | .arr xs => .ok (.arr ((List.range xs.length).map (fun (i : Nat) => .num (.int (i : Int)))))
  | .obj kvs => .ok (.arr (kvs.map (fun kv => .str kv.1)))
  | _ => .error .type

/-- `[.[]]`: `opiter` visits array elements in order and object members by sorted key -/
def iterValues : JV → Except SortErr JV
  | .arr xs => .ok (.arr xs)
  | .obj kvs => .ok (.arr (kvs.map (·.2)))
  | _ => .error .type

end Gojq

/-
  The interpreter loop: a transliteration of `(*env).Next` (execute.go) together with
  stack.go, scope_stack.go, env.go, `pushfork`/`popfork`, `env.index`, `popscope`,
  `pathIntact`, `poppaths`.  Core Lean only.

  The model runs the REAL bytecode (dumped with `VerifCodes`).  Everything the loop obtains
  from outside itself is an ORACLE input, recorded by the harness from the real run and
  keyed by the poll number of the instruction that obtains it (`ExtRec`; an instruction makes
  at most one such call and at most one `pathIntact` test):
    * the result of a native callback, of `funcIndex2`, of a Go iterator's `Next()`;
    * the answer of `pathIntact` (pointer identity of containers cannot be expressed on `JV`);
    * the `typeErrorPreview` text of the value the instruction would blame in an error.
  The context poll at the top of the loop is the oracle `cancelled : Nat → Bool` on the poll
  counter, numbered across `Next` calls.  Every Go panic site is an explicit `Res.panic`.
  `Res.stuck` marks the few places the model does not cover (non-JSON values inside
  containers, comparison of pointer-typed values, a missing oracle answer); it is an
  explicit outcome, never a value.

  `hasCtx` (no polling at all under `context.Background()`) is the oracle `fun _ => false`.
  The model follows the code WITH the fix of D7/D7b: exhaustion saves `pc = len(codes)`, and both
  `invalidPathIterError` branches of `opiter` push `emptyIter{}` like the `iteratorError` branch.

  Not modelled: Go `int` overflow of `offset`/`label`/`expdepth` (unbounded `Int` here) and
  the partially updated state left behind by a panic (after `panic` nothing is claimed).
-/
import Gojq.Model.Json
namespace Gojq.VM
open Gojq

/-! ## persistent stacks — stack.go / scope_stack.go, literally -/

structure Block (α : Type) where
  value : α
  next : Int

structure Stack (α : Type) where
  data : Array (Block α) := #[]
  index : Int := -1
  limit : Int := -1

namespace Stack
variable {α : Type}

/-- `push`: `index = max(index, limit) + 1`, overwrite or append.  `index, limit ≥ -1` in every
    state reachable from `newStack` (they only ever hold earlier values of `index`), so the
    slot is never negative. -/
def push (s : Stack α) (v : α) : Stack α :=
  let b : Block α := ⟨v, s.index⟩
  let i := max s.index s.limit + 1
  if i.toNat < s.data.size then { s with data := s.data.setIfInBounds i.toNat b, index := i }
  else { s with data := s.data.push b, index := i }

/-- `s.data[s.index]`: `none` = Go's `index out of range` panic -/
def blockAt? (s : Stack α) (i : Int) : Option (Block α) :=
  if 0 ≤ i then s.data[i.toNat]? else none

def pop? (s : Stack α) : Option (α × Stack α) :=
  match s.blockAt? s.index with
  | some b => some (b.value, { s with index := b.next })
  | none => none

def top? (s : Stack α) : Option α :=
  match s.blockAt? s.index with
  | some b => some b.value
  | none => none

def empty (s : Stack α) : Bool := s.index < 0

def save (s : Stack α) : (Int × Int) × Stack α :=
  ((s.index, s.limit), if s.index > s.limit then { s with limit := s.index } else s)

def restore (s : Stack α) (index limit : Int) : Stack α := { s with index := index, limit := limit }

end Stack

/-! ## values, errors, instructions -/

/-- everything that can sit on the data stack, the paths stack or in a register -/
inductive V where
  | jv (v : JV)                    -- a JSON value (Go `nil` is `jv .null`; label numbers and the saved `expdepth` are `int`s)
  | clo (pc idx : Int)             -- `[2]int{pc, scopeindex}` pushed by `oppushpc`
  | pvs (xs : List (V × V))        -- `[]pathValue` pushed by `opiter` (path, value)
  | pv (path value : V)            -- `pathValue` on the paths stack
  | iter (h : Nat)                 -- a Go `Iter` returned by a native (handle; its `Next` is an oracle)
  | emptyIter                      -- `emptyIter{}` pushed by `opiter`'s error branches
  | tok                            -- any other opaque Go value returned by a native (the `allocator`)
  deriving Inhabited

/-- the five error types the loop raises itself -/
inductive VMErrKind where
  | objectKey | expectedArray | invalidPath | invalidPathIter | iterator
  deriving DecidableEq, Repr

/-- errors, as `opforktrybegin` / `opforklabel` distinguish them -/
inductive Err where
  | value (v : V)                  -- a `ValueError` (catchable; `Value()` is what `catch` sees)
  | halt (v : V)                   -- `*HaltError`
  | brk (name : Bytes) (v : V)     -- `*breakError{n, v}`
  | tryEnd (e : Err)               -- `*tryEndError{err}`
  | msg (m : Bytes)                -- any other error returned by a native: only `Error()` matters
  | vm (k : VMErrKind) (m : Bytes) -- raised by the loop; `m = Error()`
  deriving Inhabited

inductive NativeKind where
  | index | slice | getpath | other
  deriving DecidableEq, Repr

/-- one instruction with its operand at the Go type `Next` asserts; `bad` is an operand of another
    type or an unknown opcode (Go panics when it executes it) -/
inductive Instr where
  | nop | push (v : JV) | pop | dup | const (v : JV)
  | load (id i : Int) | store (id i : Int)
  | object (n : Int) | append (id i : Int)
  | fork (t : Int) | forktrybegin (t : Int) | forktryend | forkalt (t : Int) | forklabel (id i : Int)
  | backtrack | jump (t : Int) | jumpifnot (t : Int)
  | index (k : JV) | indexarray (k : JV)
  | call (t : Int) | callNative (kind : NativeKind) (argc : Int)
  | callrec (t : Int) | pushpc (t : Int) | callpc
  | scope (id vars nargs : Int)
  | ret | iter | expbegin | expend | pathbegin | pathend
  | bad
  deriving Inhabited

structure Scope where
  id : Int
  offset : Int
  pc : Int
  saveindex : Int
  outerindex : Int
  deriving Inhabited

structure Fork where
  pc : Int
  stackindex : Int
  stacklimit : Int
  scopeindex : Int
  scopelimit : Int
  pathindex : Int
  pathlimit : Int
  offset : Int
  expdepth : Int

/-- env.go `env` (without `codes`, `args`, `ctx`) -/
structure Env where
  pc : Int := 0
  backtrack : Bool := false
  stack : Stack V := {}
  paths : Stack V := {}
  scopes : Stack Scope := {}
  values : Array V := #[]
  forks : List Fork := []            -- head = last element of the Go slice
  offset : Int := 0
  expdepth : Int := 0
  label : Int := 0

/-- Go panic sites of the loop -/
inductive Site where
  | stackPop       -- env.pop / env.stack.top on an empty data stack (index out of range [-1])
  | pathsPop       -- env.paths.pop / top on an empty paths stack
  | scopesPop      -- env.scopes.pop on an empty scope stack
  | scopesData     -- env.scopes.data[outerindex] out of range (opscope, env.index)
  | envIndex       -- panic("env.index")
  | valuesIndex    -- env.values[i] out of range
  | assertArray    -- .([]any) failed (opappend, getpath)
  | assertClosure  -- .([2]int) failed (opcallpc)
  | assertPathValue -- .(pathValue) failed (pathIntact, poppaths)
  | assertInt      -- .(int) failed (oppathend)
  | argsSlice      -- env.args[:argcnt] / args[i] out of range
  | xsIndex        -- xs[0] on an empty []pathValue
  | uncomparable   -- == on interface values holding slices or maps
  | codesIndex     -- env.codes[pc] with pc < 0
  | badOp          -- default: panic(code.op) / operand of the wrong type
  deriving DecidableEq, Repr

/-- result of a call out of the loop -/
inductive CallRes where
  | val (v : V)
  | err (e : Err)
  | iterEnd                         -- `Next()` returned `(nil, false)`

/-- what the instruction at one poll obtains from outside the loop -/
structure ExtRec where
  call : Option CallRes := none     -- native / funcIndex2 / Iter.Next result, if one is made
  intact : Option Bool := none      -- pathIntact answer, if asked
  preview : Bytes := []             -- typeErrorPreview of the value the instruction blames

/-! ## the state monad of one instruction -/

inductive Res (α : Type) where
  | ok (a : α) (e : Env)
  | panic (site : Site)
  | stuck (why : String)

abbrev M (α : Type) := Env → Res α

@[inline] def M.pure {α} (a : α) : M α := fun e => .ok a e
@[inline] def M.bind {α β} (m : M α) (f : α → M β) : M β := fun e =>
  match m e with
  | .ok a e' => f a e'
  | .panic s => .panic s
  | .stuck w => .stuck w
instance : Monad M where
  pure := M.pure
  bind := M.bind

def panic {α} (s : Site) : M α := fun _ => .panic s
def stuck {α} (w : String) : M α := fun _ => .stuck w
def getEnv : M Env := fun e => .ok e e
def modifyEnv (f : Env → Env) : M Unit := fun e => .ok () (f e)

def push (v : V) : M Unit := modifyEnv fun e => { e with stack := e.stack.push v }
def pop : M V := fun e =>
  match e.stack.pop? with
  | some (v, s) => .ok v { e with stack := s }
  | none => .panic .stackPop
def stackTop : M V := fun e =>
  match e.stack.top? with
  | some v => .ok v e
  | none => .panic .stackPop
def pathsPush (v : V) : M Unit := modifyEnv fun e => { e with paths := e.paths.push v }
def pathsPop : M V := fun e =>
  match e.paths.pop? with
  | some (v, s) => .ok v { e with paths := s }
  | none => .panic .pathsPop
def pathsTop : M V := fun e =>
  match e.paths.top? with
  | some v => .ok v e
  | none => .panic .pathsPop

inductive WalkRes where
  | ok (i : Int)
  | panic (s : Site)
  | cyclic

/-- `env.index`: walk the scope chain through `outerindex`.  The chain is strictly decreasing in
    reachable states; the walk is bounded by the size of the scope array and a longer walk
    (a cycle: Go would not terminate) is reported as `cyclic`. -/
def scopeWalk (data : Array (Block Scope)) (id off : Int) : Nat → Int → WalkRes
  | 0, _ => .cyclic
  | fuel + 1, i =>
      if i < 0 then .panic .envIndex else
      match data[i.toNat]? with
      | none => .panic .scopesData
      | some b =>
        if b.value.id = id then .ok (b.value.offset + off)
        else scopeWalk data id off fuel b.value.outerindex

def envIndex (id off : Int) : M Int := fun e =>
  match scopeWalk e.scopes.data id off (e.scopes.data.size + 1) e.scopes.index with
  | .ok i => .ok i e
  | .panic s => .panic s
  | .cyclic => .stuck "env.index: cyclic scope chain"

/-- `env.values[i]` -/
def getValue (i : Int) : M V := fun e =>
  if 0 ≤ i then
    match e.values[i.toNat]? with
    | some v => .ok v e
    | none => .panic .valuesIndex
  else .panic .valuesIndex

/-- `env.values[i] = v` -/
def setValue (i : Int) (v : V) : M Unit := fun e =>
  if 0 ≤ i ∧ i.toNat < e.values.size then .ok () { e with values := e.values.setIfInBounds i.toNat v }
  else .panic .valuesIndex

/-- `pushfork` -/
def pushfork (pc : Int) : M Unit := modifyEnv fun e =>
  let (st, stack) := e.stack.save
  let (sc, scopes) := e.scopes.save
  let (pa, paths) := e.paths.save
  let f : Fork := { pc := pc, offset := e.offset, expdepth := e.expdepth,
                    stackindex := st.1, stacklimit := st.2, scopeindex := sc.1, scopelimit := sc.2,
                    pathindex := pa.1, pathlimit := pa.2 }
  { e with stack := stack, scopes := scopes, paths := paths, forks := f :: e.forks }

/-- `env.push(v); env.pushfork(pc); env.pop()`: a fork whose restored stack has `v` on top -/
def pushforkOver (v : V) (pc : Int) : M Unit := do
  push v
  pushfork pc
  let _ ← pop

/-- `popfork` on a non-empty fork list: the restored environment and the fork's pc -/
def popfork (f : Fork) (rest : List Fork) (e : Env) : Env × Int :=
  ({ e with forks := rest, offset := f.offset, expdepth := f.expdepth,
            stack := e.stack.restore f.stackindex f.stacklimit,
            scopes := e.scopes.restore f.scopeindex f.scopelimit,
            paths := e.paths.restore f.pathindex f.pathlimit }, f.pc)

/-- `popscope`: returns `(s.pc, s.saveindex)` -/
def popscope : M (Int × Int) := fun e =>
  let free := e.scopes.index > e.scopes.limit
  match e.scopes.pop? with
  | none => .panic .scopesPop
  | some (s, scopes) =>
    .ok (s.pc, s.saveindex) { e with scopes := scopes, offset := if free then s.offset else e.offset }

/-- the oracle answer of the call this instruction makes -/
def extCall (x : ExtRec) : M CallRes := fun e =>
  match x.call with
  | some r => .ok r e
  | none => .stuck "ext: no call result recorded for this poll"

/-- `pathIntact(v)`: `env.paths.top().(pathValue).value` then the comparison (oracle) -/
def pathIntact (x : ExtRec) : M Bool := do
  let w ← pathsTop
  match w with
  | .pv _ _ =>
    match x.intact with
    | some b => pure b
    | none => stuck "ext: no pathIntact answer recorded for this poll"
  | _ => panic .assertPathValue

/-- `!env.paths.empty() && env.expdepth == 0` -/
def tracking : M Bool := fun e => .ok (!e.paths.empty && e.expdepth == 0) e

def vmErrPrefix : VMErrKind → String
  | .objectKey => "expected a string for object key but got: "
  | .expectedArray => "expected an array but got: "
  | .invalidPath => "invalid path against: "
  | .invalidPathIter => "invalid path on iterating against: "
  | .iterator => "cannot iterate over: "

def vmErr (k : VMErrKind) (x : ExtRec) : Err := .vm k (Bytes.ofString (vmErrPrefix k) ++ x.preview)

/-- `err.Error()` as `opforktrybegin` pushes it -/
def Err.message : Err → Bytes
  | .value _ => []     -- not used: ValueErrors are caught by value
  | .halt _ => []      -- not used: never caught
  | .brk n _ => Bytes.ofString "label not defined: " ++ n
  | .tryEnd e => e.message
  | .msg m => m
  | .vm _ m => m

/-- locals of `Next` -/
structure L where
  pc : Int
  callpc : Int
  index : Int
  backtrack : Bool
  err : Option Err

/-- how an instruction leaves the `switch` -/
inductive Ctl where
  | fall            -- end of the case / `continue`: the `for` post statement runs (`pc++`)
  | jump            -- `goto loop` (pc already set)
  | brk             -- `break loop`
  | ret (v : V)     -- `return v, true`

/-- Go `==` on two interface values -/
inductive EqRes where
  | eq (b : Bool)
  | panic           -- same uncomparable dynamic type
  | unknown         -- pointer-typed or nested: not modelled

def inInt64 (z : Int) : Bool := -9223372036854775808 ≤ z && z ≤ 9223372036854775807

def goEq : V → V → EqRes
  | .jv .null, .jv .null => .eq true
  | .jv (.bool a), .jv (.bool b) => .eq (a == b)
  | .jv (.str a), .jv (.str b) => .eq (a == b)
  | .jv (.num (.int a)), .jv (.num (.int b)) =>
      if inInt64 a && inInt64 b then .eq (a == b)
      else if inInt64 a || inInt64 b then .eq false      -- int vs *big.Int
      else .unknown                                      -- two *big.Int: pointer equality
  | .jv (.num (.int _)), .jv (.num _) => .eq false
  | .jv (.num _), .jv (.num (.int _)) => .eq false
  | .jv (.num .nan), .jv (.num _) => .eq false
  | .jv (.num _), .jv (.num .nan) => .eq false
  | .jv (.num a), .jv (.num b) =>
      -- two float64: -0 == 0
      let z (n : Num) : Num := match n with | .nzero => .flt 0 | n => n
      .eq (decide (z a = z b))
  | .jv (.arr _), .jv (.arr _) => .panic
  | .jv (.obj _), .jv (.obj _) => .panic
  | .jv _, .jv _ => .eq false
  | .clo a b, .clo c d => .eq (a == c && b == d)
  | .pvs _, .pvs _ => .panic
  | .pv _ _, .pv _ _ => .unknown
  | .iter a, .iter b => .eq (a == b)
  | .emptyIter, .emptyIter => .eq true
  | .tok, .tok => .unknown
  | .jv _, _ => .eq false
  | .clo _ _, _ => .eq false
  | .pvs _, _ => .eq false
  | .pv _ _, _ => .eq false
  | .iter _, _ => .eq false
  | .emptyIter, _ => .eq false
  | .tok, _ => .eq false

def asJV : V → M JV
  | .jv v => pure v
  | _ => stuck "non-JSON value inside a container"

/-- `opobject`: pop `n` (value, key) pairs; the first occurrence of a key wins -/
def objectLoop (x : ExtRec) : Nat → List (Bytes × JV) → M (Except Err (List (Bytes × JV)))
  | 0, m => pure (.ok m)
  | n + 1, m => do
    let v ← pop
    let k ← pop
    match k with
    | .jv (.str s) =>
      let v ← asJV v
      objectLoop x n (match kvLookup s m with | some _ => m | none => kvInsert s v m)
    | _ => pure (.error (vmErr .objectKey x))

/-- pop `n` arguments: `args[i] = env.pop()` -/
def popArgs : Nat → M (List V)
  | 0 => pure []
  | n + 1 => do
    let a ← pop
    let rest ← popArgs n
    pure (a :: rest)

/-- `poppaths`: pop `pathValue`s down to the one with `path == nil`; paths in push order.
    Bounded by the size of the paths array (the chain is strictly decreasing in reachable states). -/
def poppathsLoop : Nat → List JV → M (List JV)
  | 0, _ => stuck "poppaths: cyclic paths chain"
  | fuel + 1, acc => do
    let p ← pathsPop
    match p with
    | .pv (.jv .null) _ => pure acc
    | .pv path _ => do
      let j ← asJV path
      poppathsLoop fuel (j :: acc)
    | _ => panic .assertPathValue

def poppaths : M (List JV) := fun e => poppathsLoop (e.paths.data.size + 1) [] e

def insertKV (kv : Bytes × JV) : List (Bytes × JV) → List (Bytes × JV)
  | [] => [kv]
  | kv' :: rest => if Bytes.lt kv'.1 kv.1 then kv' :: insertKV kv rest else kv :: kv' :: rest

/-- `sort.Slice(xs, path < path)` for the entries of a map (keys are distinct) -/
def sortKVs (kvs : List (Bytes × JV)) : List (Bytes × JV) := kvs.foldr insertKV []

def enumFrom (i : Int) : List JV → List (V × V)
  | [] => []
  | v :: vs => (.jv (.num (.int i)), .jv v) :: enumFrom (i + 1) vs

/-- `for _, p := range ps { env.paths.push(pathValue{path: p, value: w}) }` -/
def pushPaths (w : V) : List JV → M Unit
  | [] => pure ()
  | p :: ps => do pathsPush (.pv (.jv p) w); pushPaths w ps

/-- `opiter` on a container whose path is no longer intact -/
def iterInvalid (x : ExtRec) (l : L) : M (Ctl × L) := do
  push .emptyIter          -- the fix: keep the re-entry after the error balanced
  pure (.brk, { l with err := some (vmErr .invalidPathIter x) })

/-- `tracking && !pathIntact(v)` -/
def pathBroken (x : ExtRec) : M Bool := do
  if (← tracking) then
    let ok ← pathIntact x
    pure (!ok)
  else pure false

/-- the tail of `opiter` once `xs` is known -/
def iterEmit (pc : Int) (l : L) (xs : List (V × V)) : M (Ctl × L) :=
  match xs with
  | [] => panic .xsIndex
  | (p, v) :: rest => do
    if !rest.isEmpty then pushforkOver (.pvs rest) pc
    push v
    if (← tracking) then pathsPush (.pv p v)
    pure (.fall, l)

/-- one instruction of the `switch` in `Next`; `l.pc` is the pc of `ins` -/
def exec (ins : Instr) (x : ExtRec) (l : L) : M (Ctl × L) :=
  match ins with
  | .nop => pure (.fall, l)
  | .push v => do push (.jv v); pure (.fall, l)
  | .pop => do let _ ← pop; pure (.fall, l)
  | .dup => do let v ← pop; push v; push v; pure (.fall, l)
  | .const v => do let _ ← pop; push (.jv v); pure (.fall, l)
  | .load id i => do
    let k ← envIndex id i
    let v ← getValue k
    push v
    pure (.fall, l)
  | .store id i => do
    let k ← envIndex id i
    let v ← pop
    setValue k v
    pure (.fall, l)
  | .object n =>
    if l.backtrack then pure (.brk, l) else do
    match ← objectLoop x n.toNat [] with
    | .error e => pure (.brk, { l with err := some e })
    | .ok m => do push (.jv (.obj m)); pure (.fall, l)
  | .append id i => do
    let k ← envIndex id i
    let a ← getValue k
    match a with
    | .jv (.arr xs) => do
      let v ← pop
      let j ← asJV v
      setValue k (.jv (.arr (xs ++ [j])))
      pure (.fall, l)
    | _ => panic .assertArray
  | .fork t =>
    if l.backtrack then
      if l.err.isSome then pure (.brk, l)
      else pure (.jump, { l with pc := t, backtrack := false })
    else do pushfork l.pc; pure (.fall, l)
  | .forktrybegin t =>
    if l.backtrack then
      match l.err with
      | none => pure (.brk, l)
      | some (.tryEnd e) => pure (.brk, { l with err := some e })
      | some (.brk _ _) => pure (.brk, l)
      | some (.halt _) => pure (.brk, l)
      | some (.value v) => do
        let _ ← pop
        push v
        pure (.jump, { l with pc := t, backtrack := false, err := none })
      | some e => do
        let _ ← pop
        push (.jv (.str e.message))
        pure (.jump, { l with pc := t, backtrack := false, err := none })
    else do pushfork l.pc; pure (.fall, l)
  | .forktryend =>
    if l.backtrack then
      pure (.brk, { l with err := l.err.map .tryEnd })
    else do pushfork l.pc; pure (.fall, l)
  | .forkalt t =>
    if l.backtrack then
      if l.err.isNone then pure (.brk, l)
      else pure (.jump, { l with pc := t, backtrack := false, err := none })
    else do pushfork l.pc; pure (.fall, l)
  | .forklabel id i =>
    if l.backtrack then do
      let label ← pop
      match l.err with
      | some (.brk _ v) =>
        match goEq v label with
        | .eq true => pure (.brk, { l with err := none })
        | .eq false => pure (.brk, l)
        | .panic => panic .uncomparable
        | .unknown => stuck "opforklabel: comparison of pointer-typed values"
      | _ => pure (.brk, l)
    else do
      let lab := (← getEnv).label
      pushforkOver (.jv (.num (.int lab))) l.pc
      let k ← envIndex id i
      setValue k (.jv (.num (.int lab)))
      modifyEnv fun e => { e with label := e.label + 1 }
      pure (.fall, l)
  | .backtrack => pure (.brk, l)
  | .jump t => pure (.jump, { l with pc := t })
  | .jumpifnot t => do
    let v ← pop
    match v with
    | .jv .null => pure (.jump, { l with pc := t })
    | .jv (.bool false) => pure (.jump, { l with pc := t })
    | _ => pure (.fall, l)
  | .index k => execIndex false k
  | .indexarray k => execIndex true k
  | .call t =>
    if l.backtrack then pure (.brk, l) else do
    let e ← getEnv
    pure (.jump, { l with pc := t, callpc := l.pc, index := e.scopes.index })
  | .callNative kind argc =>
    if l.backtrack then pure (.brk, l) else do
    let _x ← pop
    if argc < 0 ∨ argc > 32 then panic .argsSlice else do
    let args ← popArgs argc.toNat
    match ← extCall x with
    | .iterEnd => stuck "ext: native call answered by an iterator end"
    | .err e => pure (.brk, { l with err := some e })
    | .val w => do
      push w
      if (← tracking) then
        match kind with
        | .index =>
          match args with
          | [] => panic .argsSlice                  -- x = args[0]
          | _ :: rest =>
            if !(← pathIntact x) then pure (.brk, { l with err := some (vmErr .invalidPath x) }) else
            match rest with
            | a1 :: _ => do pathsPush (.pv a1 w); pure (.fall, l)
            | [] => panic .argsSlice
        | .slice =>
          match args with
          | [] => panic .argsSlice
          | _ :: rest =>
            if !(← pathIntact x) then pure (.brk, { l with err := some (vmErr .invalidPath x) }) else
            match rest with
            | a1 :: a2 :: _ => do
              let e ← asJV a1
              let s ← asJV a2
              pathsPush (.pv (.jv (.obj [(Bytes.ofString "end", e), (Bytes.ofString "start", s)])) w)
              pure (.fall, l)
            | _ => panic .argsSlice
        | .getpath =>
          if !(← pathIntact x) then pure (.brk, { l with err := some (vmErr .invalidPath x) }) else
          match args with
          | .jv (.arr ps) :: _ => do pushPaths w ps; pure (.fall, l)
          | _ :: _ => panic .assertArray
          | [] => panic .argsSlice
        | .other => pure (.fall, l)
      else pure (.fall, l)
  | .callrec t => do
    let e ← getEnv
    pure (.jump, { l with pc := t, callpc := -1, index := e.scopes.index })
  | .pushpc t => do
    let e ← getEnv
    push (.clo t e.scopes.index)
    pure (.fall, l)
  | .callpc => do
    match ← pop with
    | .clo pc idx => pure (.jump, { l with pc := pc, callpc := l.pc, index := idx })
    | _ => panic .assertClosure
  | .scope id vars _ => do
    let e ← getEnv
    let (callpc, saveindex) ←
      (if l.index = e.scopes.index then
        if l.callpc ≥ 0 then pure (l.callpc, l.index)
        else popscope
      else pure (l.callpc, e.scopes.index) : M (Int × Int))
    let e ← getEnv
    let outerindex ←
      (if l.index ≥ 0 then
        match e.scopes.data[l.index.toNat]? with
        | none => panic .scopesData
        | some b => pure (if b.value.id = id then b.value.outerindex else l.index)
      else pure l.index : M Int)
    modifyEnv fun e =>
      let offset := e.offset + vars
      { e with scopes := e.scopes.push ⟨id, e.offset, callpc, saveindex, outerindex⟩, offset := offset }
    let e ← getEnv
    if e.offset > e.values.size then
      -- vs := make([]any, env.offset*2); copy(vs, env.values)
      modifyEnv fun e => { e with values := e.values ++ Array.replicate ((e.offset * 2).toNat - e.values.size) (.jv .null) }
    pure (.fall, { l with callpc := callpc })
  | .ret =>
    if l.backtrack then pure (.brk, l) else do
    let (pc, saveindex) ← popscope
    modifyEnv fun e => { e with scopes := { e.scopes with index := saveindex } }
    let l := { l with pc := pc }
    if (← getEnv).scopes.empty then do
      let v ← pop
      pure (.ret v, l)
    else pure (.fall, l)
  | .iter =>
    if l.err.isSome then pure (.brk, l) else do
    let l := { l with backtrack := false }
    let v ← pop
    match v with
    | .pvs xs => iterEmit l.pc l xs
    | .jv (.arr vs) => do
      if (← pathBroken x) then iterInvalid x l
      else if vs.isEmpty then pure (.brk, l)
      else iterEmit l.pc l (enumFrom 0 vs)
    | .jv (.obj kvs) => do
      if (← pathBroken x) then iterInvalid x l
      else if kvs.isEmpty then pure (.brk, l)
      else iterEmit l.pc l ((sortKVs kvs).map fun (k, v) => (.jv (.str k), .jv v))
    | .emptyIter => pure (.brk, l)         -- emptyIter{}.Next() is (nil, false)
    | .iter _ => do
      match ← extCall x with
      | .iterEnd => pure (.brk, l)
      | .val w => do
        pushforkOver v l.pc
        push w
        pure (.fall, l)
      | .err e => do
        pushforkOver v l.pc
        pure (.brk, { l with err := some e })
    | _ => do
      push .emptyIter
      pure (.brk, { l with err := some (vmErr .iterator x) })
  | .expbegin => do modifyEnv fun e => { e with expdepth := e.expdepth + 1 }; pure (.fall, l)
  | .expend => do modifyEnv fun e => { e with expdepth := e.expdepth - 1 }; pure (.fall, l)
  | .pathbegin => do
    let e ← getEnv
    pathsPush (.jv (.num (.int e.expdepth)))
    let t ← stackTop
    pathsPush (.pv (.jv .null) t)
    modifyEnv fun e => { e with expdepth := 0 }
    pure (.fall, l)
  | .pathend =>
    if l.backtrack then pure (.brk, l) else do
    let _ ← pop
    let _v ← pop
    if !(← pathIntact x) then pure (.brk, { l with err := some (vmErr .invalidPath x) }) else do
    let ps ← poppaths
    push (.jv (.arr ps))
    match ← pathsPop with
    | .jv (.num (.int d)) => do
      modifyEnv fun e => { e with expdepth := d }
      pure (.fall, l)
    | _ => panic .assertInt
  | .bad => panic .badOp
where
  /-- `opindex` / `opindexarray` -/
  execIndex (isArray : Bool) (k : JV) : M (Ctl × L) :=
    if l.backtrack then pure (.brk, l) else do
    let v ← pop
    let notArray : Bool := match v with
      | .jv .null => false
      | .jv (.arr _) => false
      | _ => true
    if isArray && notArray then pure (.brk, { l with err := some (vmErr .expectedArray x) }) else do
    match ← extCall x with
    | .iterEnd => stuck "ext: funcIndex2 answered by an iterator end"
    | .err e => pure (.brk, { l with err := some e })
    | .val w => do
      push w
      if (← tracking) then
        if !(← pathIntact x) then pure (.brk, { l with err := some (vmErr .invalidPath x) }) else do
        pathsPush (.pv (.jv k) w)
        pure (.fall, l)
      else pure (.fall, l)

/-! ## `Next` -/

/-- interpreter state between calls: the environment and the number of context polls so far -/
structure St where
  env : Env := {}
  polls : Nat := 0

inductive Outcome where
  | value (v : V)          -- `(v, true)`
  | error (e : Err)        -- `(err, true)`
  | done                   -- `(nil, false)`
  | ctxErr                 -- `(ctx.Err(), true)`
  | panic (s : Site)
  | stuck (why : String)   -- the model does not cover this run
  | outOfFuel              -- the loop bound of the model was reached (never a value)

instance : Inhabited Outcome := ⟨.done⟩
instance : Inhabited Env := ⟨{}⟩
instance : Inhabited St := ⟨{}⟩

structure Params where
  code : Array Instr
  cancelled : Nat → Bool
  ext : Nat → ExtRec

/-- the deferred `env.pc, env.backtrack = pc, true` -/
def St.save (s : St) (pc : Int) : St := { s with env := { s.env with pc := pc, backtrack := true } }

/-- after the loop, no fork left -/
def finish (P : Params) (l : L) (s : St) : Outcome × St :=
  match l.err with
  | some e => (.error e, s.save l.pc)
  | none => (.done, s.save P.code.size)      -- the fix: `pc = len(env.codes)` before `return nil, false`

/-- one turn of the control skeleton of `Next`: either it is over (`fin`) or the loop is
    re-entered with new locals (`cont`) -/
inductive Step where
  | cont (l : L) (s : St)
  | fin (o : Outcome) (s : St)

/-- after `break loop` / after the loop condition failed:
    `if len(env.forks) > 0 { pc, backtrack = env.popfork(), true; goto loop }`, else return -/
def unwind (P : Params) (l : L) (s : St) : Step :=
  match s.env.forks with
  | [] => .fin (finish P l s).1 (finish P l s).2
  | f :: rest =>
    .cont { l with pc := (popfork f rest s.env).2, backtrack := true } { s with env := (popfork f rest s.env).1 }

/-- one iteration of `for ; pc < len(env.codes); pc++ { … }` including what follows a `break loop` -/
def step (P : Params) (l : L) (s : St) : Step :=
  if l.pc < P.code.size then
    if l.pc < 0 then .fin (.panic .codesIndex) (s.save l.pc) else     -- `code := env.codes[pc]`
    -- `select { case <-env.ctx.Done(): … }`: poll number `s.polls`
    if P.cancelled s.polls then
      -- `pc, env.forks = len(env.codes), nil; return env.ctx.Err(), true`
      .fin .ctxErr (({ env := { s.env with forks := [] }, polls := s.polls + 1 } : St).save P.code.size)
    else
      match exec (P.code.getD l.pc.toNat .bad) (P.ext s.polls) l s.env with
      | .panic site => .fin (.panic site) (({ s with polls := s.polls + 1 } : St).save l.pc)
      | .stuck why => .fin (.stuck why) (({ s with polls := s.polls + 1 } : St).save l.pc)
      | .ok (ctl, l') env' =>
        match ctl with
        | .fall => .cont { l' with pc := l'.pc + 1 } { env := env', polls := s.polls + 1 }
        | .jump => .cont l' { env := env', polls := s.polls + 1 }
        | .ret v => .fin (.value v) (({ env := env', polls := s.polls + 1 } : St).save l'.pc)
        | .brk => unwind P l' { env := env', polls := s.polls + 1 }
  else unwind P l s

/-- the loop of `Next`: `fuel + 1` turns are allowed.  A turn that ends the call needs no fuel, so
    an exhausted or cancelled iterator answers at every fuel. -/
def loop (P : Params) : Nat → L → St → Outcome × St
  | fuel, l, s =>
    match step P l s with
    | .fin o s' => (o, s')
    | .cont l' s' =>
      match fuel with
      | 0 => (.outOfFuel, s'.save l'.pc)
      | fuel + 1 => loop P fuel l' s'

/-- `(*env).Next` -/
def entry (P : Params) (s : St) : L :=
  { pc := s.env.pc, callpc := (P.code.size : Int) - 1, index := -1, backtrack := s.env.backtrack, err := none }

def next (P : Params) (fuel : Nat) (s : St) : Outcome × St := loop P fuel (entry P s) s

/-- `execute`: push the input, then the variable values in reverse order -/
def initSt (input : V) (vars : List V) : St :=
  let e : Env := {}
  let e := { e with stack := e.stack.push input }
  { env := vars.reverse.foldl (fun e v => { e with stack := e.stack.push v }) e }

/-- the `(value, ok)` history of `n` successive calls -/
def history (P : Params) (fuel : Nat) : Nat → St → List Outcome
  | 0, _ => []
  | n + 1, s => let r := next P fuel s; r.1 :: history P fuel n r.2

/-- the state after `n` successive calls -/
def after (P : Params) (fuel : Nat) : Nat → St → St
  | 0, s => s
  | n + 1, s => after P fuel n (next P fuel s).2

/-! ## one-shot iterators (iter.go `unitIter`), returned by RunWithContext on arity mismatch -/

structure UnitIter (α : Type) where
  value : α
  done : Bool := false

def UnitIter.next {α} (it : UnitIter α) : Option α × UnitIter α :=
  if it.done then (none, it) else (some it.value, { it with done := true })

def UnitIter.history {α} : Nat → UnitIter α → List (Option α)
  | 0, _ => []
  | n + 1, it => let r := it.next; r.1 :: UnitIter.history n r.2

end Gojq.VM

/-
  C13 — the calendar core behind gmtime / mktime / todate / fromdate (func.go: epochToArray,
  arrayToTime, timeToEpoch, funcStrptime; builtin.jq: todate = strftime("%Y-%m-%dT%H:%M:%SZ"),
  fromdate = strptime("%Y-%m-%dT%H:%M:%S%z") | mktime).  Whole seconds only.  Core Lean only.

  Go's `time.Unix(t,0).UTC()` field extraction and `time.Date` are modelled by the standard
  proleptic-Gregorian day-count algorithms (days since 1970-01-01, `Int./` = floor division).
  `time.Date` normalises out-of-range fields: months overflow into the year, everything else is
  linear in days/seconds — that is what `daysFromCivil` (linear in the day) and `mktime` compute.
-/
import Gojq.Model.Json
namespace Gojq.Calendar
open Gojq

/-- (year, month 1..12, day 1..31) of the day `z` days after 1970-01-01 -/
def civilFromDays (z : Int) : Int × Int × Int :=
  let z := z + 719468
  let era := z / 146097
  let doe := z - era * 146097
  let yoe := (doe - doe / 1460 + doe / 36524 - doe / 146096) / 365
  let doy := doe - (365 * yoe + yoe / 4 - yoe / 100)
  let mp := (5 * doy + 2) / 153
  let d := doy - (153 * mp + 2) / 5 + 1
  let m := if mp < 10 then mp + 3 else mp - 9
  (yoe + era * 400 + (if m ≤ 2 then 1 else 0), m, d)

/-- days since 1970-01-01 of year `y`, month `m` ∈ 1..12, day `d` (any integer: linear) -/
def daysFromCivil (y m d : Int) : Int :=
  let y := y - (if m ≤ 2 then 1 else 0)
  let era := y / 400
  let yoe := y - era * 400
  let doy := (153 * (if m > 2 then m - 3 else m + 9) + 2) / 5 + d - 1
  let doe := yoe * 365 + yoe / 4 - yoe / 100 + doy
  era * 146097 + doe - 719468

/-- gojq's "broken down time" array: [year, month0, day, hours, minutes, seconds, weekday, yearday] -/
structure Broken where
  year : Int
  month0 : Int
  day : Int
  hour : Int
  minute : Int
  second : Int
  weekday : Int
  yearday : Int
  deriving Repr, DecidableEq

/-- funcGmtime / epochToArray on a whole number of seconds -/
def gmtime (t : Int) : Broken :=
  let days := t / 86400
  let rem := t % 86400
  let (y, m, d) := civilFromDays days
  { year := y, month0 := m - 1, day := d,
    hour := rem / 3600, minute := rem % 3600 / 60, second := rem % 60,
    weekday := (days + 4) % 7,
    yearday := days - daysFromCivil y 1 1 }

/-- funcMktime / arrayToTime / time.Date / timeToEpoch on integer fields (weekday and yearday are
    ignored by the code): the month is normalised into 0..11 carrying into the year; the rest is linear. -/
def mktimeFields (year month0 day hour minute second : Int) : Int :=
  let y := year + month0 / 12
  let m := month0 % 12 + 1
  daysFromCivil y m day * 86400 + hour * 3600 + minute * 60 + second

def mktime (b : Broken) : Int := mktimeFields b.year b.month0 b.day b.hour b.minute b.second

/-! ## the fixed layout `%Y-%m-%dT%H:%M:%SZ` -/

def digit (n : Int) : UInt8 := UInt8.ofNat (48 + (n % 10).toNat)

def fmt2 (n : Int) : Bytes := [digit (n / 10), digit n]
def fmt4 (n : Int) : Bytes := [digit (n / 1000), digit (n / 100), digit (n / 10), digit n]

/-- `strftime("%Y-%m-%dT%H:%M:%SZ")` of broken-down fields whose year is in 0..9999 -/
def formatDate (b : Broken) : Bytes :=
  fmt4 b.year ++ 45 :: fmt2 (b.month0 + 1) ++ 45 :: fmt2 b.day ++ 84 :: fmt2 b.hour ++ 58 :: fmt2 b.minute
    ++ 58 :: fmt2 b.second ++ [90]

/-- `todate` on whole seconds (claimed for years 0..9999 only: other years print with a sign or
    more digits in timefmt) -/
def todate (t : Int) : Bytes := formatDate (gmtime t)

def dig (c : UInt8) : Option Int :=
  if 48 ≤ c.toNat ∧ c.toNat ≤ 57 then some ((c.toNat : Int) - 48) else none

def num2 (a b : UInt8) : Option Int :=
  match dig a, dig b with
  | some x, some y => some (x * 10 + y)
  | _, _ => none

def num4 (a b c d : UInt8) : Option Int :=
  match dig a, dig b, dig c, dig d with
  | some x, some y, some z, some w => some (x * 1000 + y * 100 + z * 10 + w)
  | _, _, _, _ => none

/-- the strictly zero-padded shape `DDDD-DD-DDTDD:DD:DDZ`; `none` = another shape (not modelled:
    timefmt also accepts shorter fields and numeric offsets) -/
def dateShape : Bytes → Option (Int × Int × Int × Int × Int × Int)
  | [y3, y2, y1, y0, s1, m1, m0, s2, d1, d0, s3, h1, h0, s4, i1, i0, s5, c1, c0, z] =>
    if s1.toNat = 45 ∧ s2.toNat = 45 ∧ s3.toNat = 84 ∧ s4.toNat = 58 ∧ s5.toNat = 58 ∧ z.toNat = 90 then
      match num4 y3 y2 y1 y0, num2 m1 m0, num2 d1 d0, num2 h1 h0, num2 i1 i0, num2 c1 c0 with
      | some y, some m, some d, some h, some i, some c => some (y, m, d, h, i, c)
      | _, _, _, _, _, _ => none
    else none
  | _ => none

/-- timefmt's range checks for %m %d %H %M %S (the %Y check 0..9999 is implied by four digits);
    note day 31 is accepted in every month and second 60 always: `time.Date` normalises them. -/
def fieldsOk (m d h i c : Int) : Bool :=
  1 ≤ m && m ≤ 12 && 1 ≤ d && d ≤ 31 && h ≤ 23 && i ≤ 59 && c ≤ 60

/-- the fixed-layout parse followed by `mktime`, WITHOUT the zero-time quirk of funcStrptime.
    outer `none` = shape not modelled; inner `none` = parse error. -/
def parseDate (s : Bytes) : Option (Option Int) :=
  match dateShape s with
  | none => none
  | some (y, m, d, h, i, c) =>
    if fieldsOk m d h i c then some (some (mktimeFields y (m - 1) d h i c)) else some none

/-- the instant of Go's zero `time.Time`: 0001-01-01T00:00:00Z -/
def zeroTime : Int := -62135596800

/-- `fromdate` as CODED: funcStrptime reports a parse result equal to the zero `time.Time` as an
    error (finding D10). -/
def fromdate (s : Bytes) : Option (Option Int) :=
  match parseDate s with
  | some (some t) => if t = zeroTime then some none else some (some t)
  | r => r

end Gojq.Calendar

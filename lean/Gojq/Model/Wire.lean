/-
  Line protocol value syntax shared by every correspondence stream (DESIGN §3.1, §4.2).
  One value = space-separated tokens in prefix form:
    n | t | f | i<decimal> | d<16 hex float64 bits> | dNaN | s<hex bytes> | [ v* ] | { (s<hex> v)* }
  Driver-side code only (uses `partial`); nothing here is used in a theorem.
-/
import Gojq.Model.Float
namespace Gojq.Wire
open Gojq

def hexVal (c : Char) : Option Nat :=
  if '0' ≤ c ∧ c ≤ '9' then some (c.toNat - '0'.toNat)
  else if 'a' ≤ c ∧ c ≤ 'f' then some (c.toNat - 'a'.toNat + 10)
  else if 'A' ≤ c ∧ c ≤ 'F' then some (c.toNat - 'A'.toNat + 10)
  else none

def hexToBytes (cs : List Char) : Option Bytes :=
  match cs with
  | [] => some []
  | a :: b :: rest => do
    let x ← hexVal a
    let y ← hexVal b
    let r ← hexToBytes rest
    pure (UInt8.ofNat (x * 16 + y) :: r)
  | _ => none

def hexToNat (cs : List Char) : Option Nat :=
  cs.foldlM (fun acc c => do let x ← hexVal c; pure (acc * 16 + x)) 0

def hexDigit (n : Nat) : Char :=
  if n < 10 then Char.ofNat ('0'.toNat + n) else Char.ofNat ('a'.toNat + n - 10)

def bytesToHex (b : Bytes) : String :=
  String.ofList (b.flatMap fun x => [hexDigit (x.toNat / 16), hexDigit (x.toNat % 16)])

def natToHex16 (n : Nat) : String :=
  String.ofList ((List.range 16).reverse.map fun i => hexDigit ((n / 16^i) % 16))

/-- parse one value from a token list; returns the value and the remaining tokens -/
partial def parseVal : List String → Option (JV × List String)
  | [] => none
  | tok :: rest =>
    match tok.toList with
    | ['n'] => some (.null, rest)
    | ['t'] => some (.bool true, rest)
    | ['f'] => some (.bool false, rest)
    | 'i' :: ds => (String.ofList ds).toInt?.map fun z => (.num (.int z), rest)
    | ['d', 'N', 'a', 'N'] => some (.num .nan, rest)
    | 'd' :: hs => (hexToNat hs).map fun n => (.num (Num.ofBits (UInt64.ofNat n)), rest)
    | 's' :: hs => (hexToBytes hs).map fun b => (.str b, rest)
    | ['['] => parseArr rest []
    | ['{'] => parseObj rest []
    | _ => none
where
  parseArr : List String → List JV → Option (JV × List String)
    | "]" :: rest, acc => some (.arr acc.reverse, rest)
    | toks, acc => do
      let (v, rest) ← parseVal toks
      parseArr rest (v :: acc)
  parseObj : List String → List (Bytes × JV) → Option (JV × List String)
    | "}" :: rest, acc => some (JV.mkObj acc.reverse, rest)
    | toks, acc => do
      let (k, rest) ← parseVal toks
      match k with
      | .str kb =>
        let (v, rest') ← parseVal rest
        parseObj rest' ((kb, v) :: acc)
      | _ => none

def tokens (line : String) : List String :=
  (line.splitOn " ").filter (· ≠ "")

def parseLine (line : String) : Option JV :=
  match parseVal (tokens line) with
  | some (v, []) => some v
  | _ => none

/-- parse a sequence of values from tokens -/
partial def parseVals (toks : List String) (acc : List JV := []) : Option (List JV) :=
  match toks with
  | [] => some acc.reverse
  | _ => do
    let (v, rest) ← parseVal toks
    parseVals rest (v :: acc)

def numToWire : Num → String
  | .int z => "i" ++ toString z
  | .nan => "dNaN"
  | n => match n.toBits? with
    | some b => "d" ++ natToHex16 b.toNat
    | none => "d?"

partial def toWire : JV → String
  | .null => "n"
  | .bool true => "t"
  | .bool false => "f"
  | .num n => numToWire n
  | .str s => "s" ++ bytesToHex s
  | .arr xs => " ".intercalate (["["] ++ xs.map toWire ++ ["]"])
  | .obj kvs => " ".intercalate (["{"] ++ kvs.flatMap (fun (k, v) => ["s" ++ bytesToHex k, toWire v]) ++ ["}"])

end Gojq.Wire

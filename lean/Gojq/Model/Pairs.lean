/-
  C13 — the jq-defined inverse pairs of builtin.jq at value level:

    def to_entries: [keys[] as $k | {key: $k, value: .[$k]}];
    def from_entries: map({ (.key // .Key // .name // .Name):
      if has("value") then .value else .Value end }) | add // {};
    def with_entries(f): to_entries | map(f) | from_entries;
    def paths: path(..) | select(. != []);
    def tostream: path(def r: (.[]? | r), .; r) as $p | getpath($p) | reduce path(.[]?) as $q ([$p, .]; [$p + $q]);
    def fromstream(f): foreach f as $pv (null; …; …);

  Every function here is total and executable.  A jq error is `none` (the class of the error is
  not modelled here: the correspondence stream `pairs` compares `err`).  `tostream` / `fromstream`
  themselves are `Stream.streamSpec` / `Stream.fromstreamSpec` of Model/Cli/Stream.lean (C16); this
  file adds the functions the other pairs need, written with the transliterated natives
  (`keysOf`, `valuesOf`, `funcIndex2`, `funcHas`, `funcGetpath`, `funcSetpath`, `arraySub`), so the
  only thing between them and the shipped text is the evaluation order of the jq definitions —
  tied by the kernel-evaluated examples of Props/C13Pairs.lean (through `Spec.eval` on the
  regenerated ASTs) and by the correspondence stream `pairs` (Driver/C13.lean).
  Core Lean only.
-/
import Gojq.Model.Native.Path
import Gojq.Model.Cli.Stream
namespace Gojq.Pairs
open Gojq

/-! ## to_entries / from_entries / with_entries -/

/-- `{key: $k, value: $v}` (the object constructor sorts: "key" < "value") -/
def entry (k v : JV) : JV := .obj [(B "key", k), (B "value", v)]

/-- `{key: $k, value: .[$k]}` for each `$k` in turn -/
def entriesOf (v : JV) : List JV → Option (List JV)
  | [] => some []
  | k :: ks =>
    match funcIndex2 v k, entriesOf v ks with
    | .ok w, some es => some (entry k w :: es)
    | _, _ => none

/-- `to_entries`: defined on objects AND arrays (`keys` of an array are its indices) -/
def toEntries (v : JV) : Option JV :=
  match keysOf v with
  | none => none
  | some ks => (entriesOf v ks).map .arr

/-- `.name` on an entry -/
def field (e : JV) (name : String) : Option JV :=
  match funcIndex2 e (.str (B name)) with
  | .ok w => some w
  | .error _ => none

/-- `l // r` for single-output operands: gojq does not suppress an error of `l` -/
def alt (l : Option JV) (r : Unit → Option JV) : Option JV :=
  match l with
  | none => none
  | some a => if isFalsy a then r () else some a

/-- `.key // .Key // .name // .Name` -/
def entryKey (e : JV) : Option JV :=
  alt (field e "key") fun _ => alt (field e "Key") fun _ => alt (field e "name") fun _ => field e "Name"

/-- `if has("value") then .value else .Value end` -/
def entryValue (e : JV) : Option JV :=
  match funcHas e (.str (B "value")) with
  | .ok (.bool true) => field e "value"
  | .ok _ => field e "Value"
  | .error _ => none

/-- `{(key): value}`: the key must be a string -/
def fromEntry (e : JV) : Option (Bytes × JV) :=
  match entryKey e, entryValue e with
  | some (.str k), some v => some (k, v)
  | _, _ => none

def fromEntryList : List JV → Option (List (Bytes × JV))
  | [] => some []
  | e :: es =>
    match fromEntry e, fromEntryList es with
    | some kv, some kvs => some (kv :: kvs)
    | _, _ => none

/-- `add // {}` over one-member objects: successive map assignment, a later entry wins -/
def addPairs (kvs : List (Bytes × JV)) : JV :=
  .obj (kvs.foldl (fun acc kv => kvInsert kv.1 kv.2 acc) [])

/-- `from_entries` (`map` iterates arrays and — as `.[]` does — the values of objects) -/
def fromEntries (v : JV) : Option JV :=
  match valuesOf v with
  | none => none
  | some es => (fromEntryList es).map addPairs

def mapOpt (f : JV → Option JV) : List JV → Option (List JV)
  | [] => some []
  | x :: xs =>
    match f x, mapOpt f xs with
    | some y, some ys => some (y :: ys)
    | _, _ => none

/-- `with_entries(f)` for an `f` with exactly one output per entry (or an error) -/
def withEntries (f : JV → Option JV) (v : JV) : Option JV :=
  match toEntries v with
  | some (.arr es) => (mapOpt f es).bind fun es' => fromEntries (.arr es')
  | _ => none

/-! ## paths -/

mutual
/-- `[path(..)]` below the (reversed) prefix `rp`: the node itself, then its children in
    iteration order, depth first -/
def recPathsFrom (rp : List JV) : JV → List (List JV)
  | .arr xs => rp.reverse :: recPathsL rp 0 xs
  | .obj kvs => rp.reverse :: recPathsM rp kvs
  | .null => [rp.reverse]
  | .bool _ => [rp.reverse]
  | .num _ => [rp.reverse]
  | .str _ => [rp.reverse]
def recPathsL (rp : List JV) (i : Nat) : List JV → List (List JV)
  | [] => []
  | x :: xs => recPathsFrom (Stream.idxJV i :: rp) x ++ recPathsL rp (i + 1) xs
def recPathsM (rp : List JV) : List (Bytes × JV) → List (List JV)
  | [] => []
  | (k, x) :: kvs => recPathsFrom (.str k :: rp) x ++ recPathsM rp kvs
end

/-- `[path(..)]` -/
def recPaths (v : JV) : List (List JV) := recPathsFrom [] v

/-- `[paths]`, written WITHOUT the filter `select(. != [])`: the paths of all proper descendants -/
def allPaths : JV → List (List JV)
  | .arr xs => recPathsL [] 0 xs
  | .obj kvs => recPathsM [] kvs
  | _ => []

def pathsJV (ps : List (List JV)) : JV := .arr (ps.map .arr)

/-- the right-hand side of the documented law, `[path(..)] - [[]]`, with the native `-` on arrays -/
def recPathsMinusRoot (v : JV) : JV := .arr (arraySub ((recPaths v).map .arr) [.arr []])

/-! ## getpath / setpath on path lists, replay of stream events -/

/-- `getpath($p)` -/
def getp (v : JV) (p : List JV) : NRes := funcGetpath v (.arr p)
/-- `setpath($p; $x)` -/
def setp (v : JV) (p : List JV) (x : JV) : NRes := funcSetpath v (.arr p) x

/-- `reduce (evs[] | select(length == 2)) as [$p, $x] (cur; setpath($p; $x))` -/
def replayEvents : List JV → JV → NRes
  | [], cur => pure cur
  | .arr [p, x] :: evs, cur =>
    match funcSetpath cur p x with
    | .ok w => replayEvents evs w
    | .error e => throw e
  | _ :: evs, cur => replayEvents evs cur

/-- is the event a two-element event `[path, leaf]` -/
def isLeafEvent : JV → Bool
  | .arr [_, _] => true
  | _ => false

/-- the path of an event (`[p, leaf]` or `[p]`) -/
def eventPath : JV → Option (List JV)
  | .arr (.arr p :: _) => some p
  | _ => none

/-! ## hypotheses of the laws -/

/-- key/index path: strings and numbers only (no slice objects, no ill-typed elements) -/
def KIPath (p : List JV) : Prop := ∀ e ∈ p, (∃ k, e = .str k) ∨ (∃ m, e = .num m)

/-- the Go `int` a number path element denotes (`toInt`: truncating, saturating) -/
def idxOf (m : Num) : Int := (toInt? (.num m)).getD 0

/-- `q` is a REAL location of `v`, holding `x`: every step finds an existing key of an object, or
    an existing element of an array — the index may be negative (counted from the end) or
    fractional (truncated), resolved as `getpath` and `setpath` resolve it (`clampIndex`) -/
def Loc : List JV → JV → JV → Prop
  | [], v, x => v = x
  | e :: q, v, x =>
    match e, v with
    | .str k, .obj kvs => ∃ y, kvLookup k kvs = some y ∧ Loc q y x
    | .num m, .arr xs =>
      0 ≤ clampIndex (idxOf m) (-1) xs.length ∧ clampIndex (idxOf m) (-1) xs.length < xs.length ∧
      ∃ y, xs[(clampIndex (idxOf m) (-1) xs.length).toNat]? = some y ∧ Loc q y x
    | _, _ => False

/-- the (top-level) keys of an association list are pairwise different -/
def DistinctKeys (kvs : List (Bytes × JV)) : Prop := kvs.Pairwise fun a b => b.1 ≠ a.1

/-! ## the events `Stream.fromstreamSpec` models -/

/-- path elements on which C16's `Stream.setpath` (the fragment of `setpath` inside
    `fromstreamSpec`) agrees with `setpath` in success AND failure: strings, integers
    `0 ≤ i < 2^29`, and elements every `setpath` rejects (null, booleans, arrays).  Not: other
    numbers (real `setpath` truncates them, takes negatives from the end, rejects ≥ 2^29), slice
    objects. -/
def elemOK : JV → Bool
  | .num (.int i) => decide (0 ≤ i) && decide (i < 536870912)
  | .num _ => false
  | .obj _ => false
  | _ => true

/-- events on which `Stream.fromstreamSpec` models the shipped `fromstream`: well-formed
    `[path, leaf]` / `[path]` events with modelled path elements.  (The shipped definition accepts
    more without an error: `null` events, `["x"]`, three-element events.) -/
def eventOK : JV → Bool
  | .arr [.arr p, _] => p.all elemOK
  | .arr [.arr _] => true
  | _ => false

/-! ## size conditions under which Go's `int` indices and `setpath`'s index limit are not met -/

mutual
/-- every array, at any depth, has at most `n` elements -/
def ArrLe (n : Nat) : JV → Prop
  | .arr xs => xs.length ≤ n ∧ ArrLeL n xs
  | .obj kvs => ArrLeM n kvs
  | .null => True
  | .bool _ => True
  | .num _ => True
  | .str _ => True
def ArrLeL (n : Nat) : List JV → Prop
  | [] => True
  | x :: xs => ArrLe n x ∧ ArrLeL n xs
def ArrLeM (n : Nat) : List (Bytes × JV) → Prop
  | [] => True
  | (_, x) :: kvs => ArrLe n x ∧ ArrLeM n kvs
end

/-- `0x20000000`: `updateArrayIndex` rejects an index from here on that lies beyond the array
    (arrayIndexTooLargeError), so an array can be REBUILT by `setpath` only up to this length -/
def setpathLimit : Nat := 536870912

/-- arrays are no longer than a Go `int` can index (`toInt` saturates beyond) -/
abbrev Indexable (v : JV) : Prop := ArrLe 9223372036854775807 v
/-- arrays are short enough to be rebuilt element by element with `setpath` -/
abbrev Rebuildable (v : JV) : Prop := ArrLe setpathLimit v

end Gojq.Pairs

/-
  A hand-written REFERENCE PARSER for the full jq grammar of parser.go.y, a typed AST for the
  parser's image, a token-level printer mirroring query.go's `writeTo`, and a tokenizer driving
  the transliterated lexer (Model/Lexer.lean) with the parser → lexer feedback of string
  interpolation replaced by a parenthesis-depth stack.  Everything is executable (stream
  `refparse` of Driver/C09.lean compares `refParse ∘ tokenize` with the real `gojq.Parse` on every
  source of the `parse` stream) and structurally recursive (kernel-evaluable).

    Tok            what one call of `Lex` delivers, classified (`classify`)
    tokenize       `lex` iterated; `inString` is set again after the `)` that closes a `\(`
    Query … Pattern  typed AST; `toAst` maps it to the uniform `Parse.Ast` exactly as the
                   semantic actions of parser.go.y build it (so `Parse.dump ∘ toAst` is comparable
                   with the `parse` stream)
    items…         the printer at token level: tokens and the separators `writeTo` puts between
                   them (`sp` = one space, `soft` = the space `Index.writeTo` inserts when the last
                   byte written is `.` or a digit, `nl`); `render` turns items into bytes
    pClimb …       precedence climbing over the documented table (`|` 1 right, `,` 2 left, `//` 3
                   right, update 4 non, `or` 5, `and` 6, compare 7 non, `+ -` 8, `* / %` 9), terms,
                   suffixes, strings with interpolation, objects, patterns, if/try/reduce/foreach,
                   def, label, `as`, module header, imports
    ok…            `Printable`: the decidable shape invariant of the parser's image
-/
import Gojq.Model.Printer
namespace Gojq.RefTerm
open Gojq Gojq.Lexer Gojq.Generated.Lalr

/-! ### keywords and operators -/

inductive Kw where
  | and_ | as_ | break_ | catch_ | def_ | elif_ | else_ | end_ | false_ | foreach_ | if_ | import_
  | include_ | label_ | module_ | null_ | or_ | reduce_ | then_ | true_ | try_
  deriving DecidableEq, Repr, Inhabited

def Kw.all : List Kw := [.and_, .as_, .break_, .catch_, .def_, .elif_, .else_, .end_, .false_, .foreach_, .if_,
  .import_, .include_, .label_, .module_, .null_, .or_, .reduce_, .then_, .true_, .try_]

def Kw.text : Kw → Bytes
  | .and_ => [97, 110, 100] | .as_ => [97, 115] | .break_ => [98, 114, 101, 97, 107]
  | .catch_ => [99, 97, 116, 99, 104] | .def_ => [100, 101, 102] | .elif_ => [101, 108, 105, 102]
  | .else_ => [101, 108, 115, 101] | .end_ => [101, 110, 100] | .false_ => [102, 97, 108, 115, 101]
  | .foreach_ => [102, 111, 114, 101, 97, 99, 104] | .if_ => [105, 102]
  | .import_ => [105, 109, 112, 111, 114, 116] | .include_ => [105, 110, 99, 108, 117, 100, 101]
  | .label_ => [108, 97, 98, 101, 108] | .module_ => [109, 111, 100, 117, 108, 101]
  | .null_ => [110, 117, 108, 108] | .or_ => [111, 114] | .reduce_ => [114, 101, 100, 117, 99, 101]
  | .then_ => [116, 104, 101, 110] | .true_ => [116, 114, 117, 101] | .try_ => [116, 114, 121]

def Kw.code : Kw → Int
  | .and_ => tokAndOp | .as_ => tokAs | .break_ => tokBreak | .catch_ => tokCatch | .def_ => tokDef
  | .elif_ => tokElif | .else_ => tokElse | .end_ => tokEnd | .false_ => tokFalse | .foreach_ => tokForeach
  | .if_ => tokIf | .import_ => tokImport | .include_ => tokInclude | .label_ => tokLabel
  | .module_ => tokModule | .null_ => tokNull | .or_ => tokOrOp | .reduce_ => tokReduce | .then_ => tokThen
  | .true_ => tokTrue | .try_ => tokTry

def kwOfCode (c : Int) : Option Kw := Kw.all.find? fun k => k.code == c
def kwOfText (s : Bytes) : Option Kw := Kw.all.find? fun k => k.text == s

/-- the 24 binary operators of operator.go -/
inductive BOp where
  | pipe | comma | alt | assign | modify | updAdd | updSub | updMul | updDiv | updMod | updAlt
  | or_ | and_ | eq | ne | lt | le | gt | ge | add | sub | mul | div | mod
  deriving DecidableEq, Repr, Inhabited

def BOp.all : List BOp := [.pipe, .comma, .alt, .assign, .modify, .updAdd, .updSub, .updMul, .updDiv, .updMod,
  .updAlt, .or_, .and_, .eq, .ne, .lt, .le, .gt, .ge, .add, .sub, .mul, .div, .mod]

/-- the `Operator` constant -/
def BOp.code : BOp → Nat
  | .pipe => OpPipe | .comma => OpComma | .alt => OpAlt | .assign => OpAssign | .modify => OpModify
  | .updAdd => OpUpdateAdd | .updSub => OpUpdateSub | .updMul => OpUpdateMul | .updDiv => OpUpdateDiv
  | .updMod => OpUpdateMod | .updAlt => OpUpdateAlt | .or_ => OpOr | .and_ => OpAnd | .eq => OpEq
  | .ne => OpNe | .lt => OpLt | .le => OpLe | .gt => OpGt | .ge => OpGe | .add => OpAdd | .sub => OpSub
  | .mul => OpMul | .div => OpDiv | .mod => OpMod

def bopOfCode (n : Nat) : Option BOp := BOp.all.find? fun o => o.code == n

/-- `Operator.String` -/
def BOp.text : BOp → Bytes
  | .pipe => [124] | .comma => [44] | .alt => [47, 47] | .assign => [61] | .modify => [124, 61]
  | .updAdd => [43, 61] | .updSub => [45, 61] | .updMul => [42, 61] | .updDiv => [47, 61]
  | .updMod => [37, 61] | .updAlt => [47, 47, 61] | .or_ => [111, 114] | .and_ => [97, 110, 100]
  | .eq => [61, 61] | .ne => [33, 61] | .lt => [60] | .le => [60, 61] | .gt => [62] | .ge => [62, 61]
  | .add => [43] | .sub => [45] | .mul => [42] | .div => [47] | .mod => [37]

inductive Assoc where
  | left | right | non
  deriving DecidableEq, Repr

/-- the documented table: binding level (higher binds tighter) -/
def BOp.lv : BOp → Nat
  | .pipe => 1 | .comma => 2 | .alt => 3
  | .assign | .modify | .updAdd | .updSub | .updMul | .updDiv | .updMod | .updAlt => 4
  | .or_ => 5 | .and_ => 6
  | .eq | .ne | .lt | .le | .gt | .ge => 7
  | .add | .sub => 8
  | .mul | .div | .mod => 9

def assocOfLv : Nat → Assoc
  | 1 => .right | 3 => .right | 4 => .non | 7 => .non | _ => .left

def BOp.assoc (o : BOp) : Assoc := assocOfLv o.lv

/-- minimal level of the operand parsed to the RIGHT of `o` -/
def BOp.rmin (o : BOp) : Nat := match o.assoc with | .right => o.lv | _ => o.lv + 1
/-- minimal level of an operator at the root of the LEFT operand of `o` -/
def BOp.lmin (o : BOp) : Nat := match o.assoc with | .left => o.lv | _ => o.lv + 1
/-- an operator of this level or above may not directly follow the right operand of `o`
    (it would have been absorbed by it, or — for a non-associative `o` — be a syntax error) -/
def BOp.absorb (o : BOp) : Nat := match o.assoc with | .left => o.lv + 1 | _ => o.lv

/-! ### tokens -/

inductive Tok where
  | ch (c : UInt8)            -- a byte returned as its own code: `. [ ] ( ) { } | , : ; + - * / % ? $ @ !` …
  | ident (s : Bytes)         -- tokIdent
  | modIdent (s : Bytes)      -- tokModuleIdent `a::b`
  | var (s : Bytes)           -- tokVariable, `$` included
  | modVar (s : Bytes)        -- tokModuleVariable
  | index (s : Bytes)         -- tokIndex `.name`; the name without the dot
  | number (s : Bytes)
  | format (s : Bytes)        -- `@name`, `@` included
  | kw (k : Kw)
  | recurse                   -- `..`
  | op (o : BOp)              -- tokAltOp / tokUpdateOp / tokCompareOp carrying their Operator
  | destAlt                   -- `?//`
  | str (v : Bytes)           -- tokString outside an interpolated string: the DECODED value
  | chunk (v : Bytes)         -- tokString inside an interpolated string: decoded value of the piece
  | strStart | strQuery | strEnd
  | bad (ty : Int)            -- tokInvalid, tokInvalidEscapeSequence, tokUnterminatedString, other bytes
  deriving DecidableEq, Repr, Inhabited

/-- classify what `Lex` returned (`inStr` = `l.inString` when it was called) -/
def classify (inStr : Bool) (ty : Int) (lv : LVal) : Tok :=
  if ty == tokIdent then .ident lv.token
  else if ty == tokModuleIdent then .modIdent lv.token
  else if ty == tokVariable then .var lv.token
  else if ty == tokModuleVariable then .modVar lv.token
  else if ty == tokIndex then .index lv.token
  else if ty == tokNumber then .number lv.token
  else if ty == tokFormat then .format lv.token
  else if ty == tokRecurse then .recurse
  else if ty == tokDestAltOp then .destAlt
  else if ty == tokAltOp || ty == tokUpdateOp || ty == tokCompareOp then
    match bopOfCode lv.operator with
    | some o => .op o
    | none => .bad ty
  else if ty == tokString then (if inStr then .chunk lv.token else .str lv.token)
  else if ty == tokStringStart then .strStart
  else if ty == tokStringQuery then .strQuery
  else if ty == tokStringEnd then .strEnd
  else match kwOfCode ty with
    | some k => .kw k
    | none => if 0 < ty && ty < 128 then .ch (UInt8.ofNat ty.toNat) else .bad ty

def Tok.isBad : Tok → Bool
  | .bad _ => true
  | _ => false

/-- the parenthesis-depth stack after a token, and whether the token closes an interpolation
    (`stk` = for every enclosing `\(`, the number of `(` opened and not yet closed inside it) -/
def stepStk : Tok → List Nat → List Nat × Bool
  | .strQuery, stk => (0 :: stk, false)
  | .ch 40, n :: rest => ((n + 1) :: rest, false)
  | .ch 41, 0 :: rest => (rest, true)
  | .ch 41, (n + 1) :: rest => (n :: rest, false)
  | _, stk => (stk, false)

/-- the tokens of a source.  The `)` met at depth 0 of an interpolation closes it and the lexer
    continues in string mode (in gojq the reduction `stringparts: stringparts tokStringQuery query
    ')'` does it).  Stops at the end of the source; a lexical error is the last token (`bad`). -/
def tokenize : Nat → LState → List Nat → List Tok
  | 0, _, _ => [.bad 0]
  | fuel + 1, s, stk =>
    let r := lex s
    if r.1 == eof then [] else
    let t := classify s.inString r.1 r.2.1
    if t.isBad then [t] else
    let st := stepStk t stk
    t :: tokenize fuel (if st.2 then { r.2.2 with inString := true } else r.2.2) st.1

def tokensOf (src : Bytes) : List Tok := tokenize (src.length + 2) (LState.init src) []

/-! ### typed AST of the parser's image -/

mutual
  inductive Query where
    | term (t : Term)
    | binop (op : BOp) (l r : Query)
    | bind (src : Query) (pats : List Pattern) (body : Query)   -- `src as p₁ ?// p₂ | body`
    | def_ (fd : FuncDef) (q : Query)                           -- `query: funcdef query`
    | label (name : Bytes) (body : Query)                       -- `label $x | body` (a TermTypeLabel term in Go)
  inductive FuncDef where
    | mk (name : Bytes) (params : List Bytes) (body : Query)
  inductive Term where
    | identity | recurse | null | true_ | false_
    | index (i : Suffix)                 -- TermTypeIndex; `i` is one of name/str/at/slice…
    | func (name : Bytes) (args : List Query)   -- also `$x`, `$m::x`, `m::f`
    | object (kvs : List KV)
    | arrayEmpty
    | array (q : Query)
    | number (text : Bytes)
    | unary (neg : Bool) (t : Term)      -- `-t` / `+t`
    | format (fmt : Bytes)
    | formatStr (fmt : Bytes) (s : Str)
    | str (s : Str)
    | if_ (c t : Query) (rest : IfRest)
    | try_ (body : Query)
    | tryCatch (body handler : Query)
    | reduce (src : Query) (pat : Pattern) (start update : Query)
    | foreach (src : Query) (pat : Pattern) (start update : Query)
    | foreach3 (src : Query) (pat : Pattern) (start update extract : Query)
    | break_ (name : Bytes)
    | paren (q : Query)
    | suf (t : Term) (s : Suffix)        -- one more element of SuffixList
  inductive Suffix where
    | name (n : Bytes)                   -- `.n`
    | str (s : Str)                      -- `."s"`
    | at (q : Query)                     -- `[q]`
    | sliceFrom (a : Query)              -- `[a:]`
    | sliceTo (b : Query)                -- `[:b]`
    | slice (a b : Query)                -- `[a:b]`
    | iter                               -- `[]`
    | opt                                -- `?`
  inductive Str where
    | lit (v : Bytes)
    | interp (parts : List Part)
  inductive Part where
    | lit (v : Bytes)                    -- a literal piece (decoded)
    | q (q : Query)                      -- `\(q)`
  inductive KV where
    | nameVal (k : Bytes) (v : Query)    -- `k: v`, k an identifier, `$var` or keyword
    | strVal (s : Str) (v : Query)
    | qVal (k : Query) (v : Query)       -- `(k): v`
    | name (k : Bytes)
    | str (s : Str)
  inductive Pattern where
    | var (n : Bytes)
    | arr (ps : List Pattern)
    | obj (kvs : List PKV)
  inductive PKV where
    | nameVal (k : Bytes) (p : Pattern)
    | strVal (s : Str) (p : Pattern)
    | qVal (k : Query) (p : Pattern)
    | name (k : Bytes)                   -- `$x`
  inductive IfRest where
    | end_
    | else_ (e : Query)
    | elif_ (c t : Query) (rest : IfRest)
end

instance : Inhabited Query := ⟨.term .identity⟩
instance : Inhabited Term := ⟨.identity⟩
instance : Inhabited Pattern := ⟨.var []⟩

/- constant terms of the module header and import metadata -/
mutual
  inductive CTerm where
    | obj (kvs : List CKV)
    | arr (es : List CTerm)
    | number (s : Bytes)
    | str (v : Bytes)
    | null | true_ | false_
  inductive CKV where
    | mk (isStr : Bool) (key : Bytes) (v : CTerm)   -- `key: v` (identifier / keyword) or `"key": v`
end

inductive Import where
  | import_ (path alias_ : Bytes) (md : Option (List CKV))
  | include_ (path : Bytes) (md : Option (List CKV))

inductive Body where
  | defs (ds : List FuncDef)     -- `body: funcdefs` (also the empty program)
  | query (q : Query)

structure Program where
  md : Option (List CKV) := none
  imports : List Import := []
  body : Body

/-! ### names and the tokens they are printed as -/

def hasColons : Bytes → Bool
  | 58 :: 58 :: _ => true
  | _ :: r => hasColons r
  | [] => false

/-- the token a function / variable name lexes to: `f`, `m::f`, `$x`, `$m::x` -/
def nameTok (n : Bytes) : Tok :=
  if n.head? == some 36 then (if hasColons n then .modVar n else .var n)
  else if hasColons n then .modIdent n else .ident n

/-- the token an object key lexes to: identifier, `$variable` or keyword -/
def keyTok (n : Bytes) : Tok :=
  if n.head? == some 36 then .var n
  else match kwOfText n with
    | some k => .kw k
    | none => .ident n

/-! ### the printer at token level (query.go `writeTo`) -/

inductive Item where
  | t (tok : Tok)
  | sp      -- one space
  | soft    -- `Index.writeTo`: a space iff the last byte written is `.` or a digit
  | nl      -- newline
  deriving DecidableEq, Repr, Inhabited

abbrev c (ch : UInt8) : Item := .t (.ch ch)
abbrev k (kw : Kw) : Item := .t (.kw kw)

/-- the token an operator is printed as -/
def opTok : BOp → Tok
  | .pipe => .ch 124 | .comma => .ch 44 | .add => .ch 43 | .sub => .ch 45 | .mul => .ch 42 | .div => .ch 47
  | .mod => .ch 37 | .or_ => .kw .or_ | .and_ => .kw .and_ | o => .op o

/-- no space before a comma, one before every other operator -/
def opSep : BOp → List Item
  | .comma => []
  | _ => [.sp]

def isIdentity : Term → Bool
  | .identity => true
  | _ => false

mutual
  def itemsQ : Query → List Item
    | .term t => itemsT t
    | .binop o l r =>
      itemsQ l ++ (opSep o ++ (.t (opTok o) :: .sp :: itemsQ r))
    | .bind s ps b =>
      itemsQ s ++ (.sp :: ((match ps with
        | [] => []
        | p :: ps' => k .as_ :: .sp :: (itemsP p ++ (.sp :: itemsAltT ps'))) ++ (c 124 :: .sp :: itemsQ b)))
    | .def_ fd q => itemsFD fd ++ (.sp :: itemsQ q)
    | .label v b => k .label_ :: .sp :: .t (.var v) :: .sp :: c 124 :: .sp :: itemsQ b
  def itemsFD : FuncDef → List Item
    | .mk name params body =>
      k .def_ :: .sp :: .t (.ident name) ::
        ((match params with
          | [] => []
          | p :: ps => c 40 :: .t (keyTok p) :: (ps.flatMap (fun p => [c 59, .sp, .t (keyTok p)]) ++ [c 41])) ++
         (c 58 :: .sp :: (itemsQ body ++ [c 59])))
  def itemsT : Term → List Item
    | .identity => [c 46]
    | .recurse => [.t .recurse]
    | .null => [k .null_]
    | .true_ => [k .true_]
    | .false_ => [k .false_]
    | .index i => itemsSuf true i
    | .func n args =>
      (match args with
       | [] => [.t (nameTok n)]
       | a :: as => .t (nameTok n) :: c 40 :: (itemsQ a ++ (itemsArgsT as ++ [c 41])))
    | .object kvs =>
      (match kvs with
       | [] => [c 123, c 125]
       | kv :: kvs' => c 123 :: .sp :: (itemsKV kv ++ (itemsKVsT kvs' ++ [.sp, c 125])))
    | .arrayEmpty => [c 91, c 93]
    | .array q => c 91 :: (itemsQ q ++ [c 93])
    | .number s => [.t (.number s)]
    | .unary neg t => c (if neg then 45 else 43) :: itemsT t
    | .format f => [.t (.format f)]
    | .formatStr f s => .t (.format f) :: .sp :: itemsS s
    | .str s => itemsS s
    | .if_ cnd t r => k .if_ :: .sp :: (itemsQ cnd ++ (.sp :: k .then_ :: .sp :: (itemsQ t ++ itemsIf r)))
    | .try_ b => k .try_ :: .sp :: itemsQ b
    | .tryCatch b h => k .try_ :: .sp :: (itemsQ b ++ (.sp :: k .catch_ :: .sp :: itemsQ h))
    | .reduce s p a u =>
      k .reduce_ :: .sp :: (itemsQ s ++ (.sp :: k .as_ :: .sp :: (itemsP p ++ (.sp :: c 40 ::
        (itemsQ a ++ (c 59 :: .sp :: (itemsQ u ++ [c 41])))))))
    | .foreach s p a u =>
      k .foreach_ :: .sp :: (itemsQ s ++ (.sp :: k .as_ :: .sp :: (itemsP p ++ (.sp :: c 40 ::
        (itemsQ a ++ (c 59 :: .sp :: (itemsQ u ++ [c 41])))))))
    | .foreach3 s p a u e =>
      k .foreach_ :: .sp :: (itemsQ s ++ (.sp :: k .as_ :: .sp :: (itemsP p ++ (.sp :: c 40 ::
        (itemsQ a ++ (c 59 :: .sp :: (itemsQ u ++ (c 59 :: .sp :: (itemsQ e ++ [c 41])))))))))
    | .break_ v => [k .break_, .sp, .t (.var v)]
    | .paren q => c 40 :: (itemsQ q ++ [c 41])
    | .suf t s => itemsT t ++ itemsSuf (isIdentity t) s
  /-- `dot = true`: `Index.writeTo` (a TermTypeIndex term, or the first suffix of an identity term);
      `dot = false`: `Suffix.writeTo` -/
  def itemsSuf : Bool → Suffix → List Item
    | _, .name n => [.soft, .t (.index n)]
    | _, .str s => .soft :: c 46 :: itemsS s
    | dot, .at q => (if dot then [.soft, c 46] else []) ++ (c 91 :: (itemsQ q ++ [c 93]))
    | dot, .sliceFrom a => (if dot then [.soft, c 46] else []) ++ (c 91 :: (itemsQ a ++ [c 58, c 93]))
    | dot, .sliceTo b => (if dot then [.soft, c 46] else []) ++ (c 91 :: c 58 :: (itemsQ b ++ [c 93]))
    | dot, .slice a b => (if dot then [.soft, c 46] else []) ++ (c 91 :: (itemsQ a ++ (c 58 :: (itemsQ b ++ [c 93]))))
    | _, .iter => [c 91, c 93]
    | _, .opt => [c 63]
  def itemsS : Str → List Item
    | .lit v => [.t (.str v)]
    | .interp ps => .t .strStart :: (itemsParts ps ++ [.t .strEnd])
  def itemsParts : List Part → List Item
    | [] => []
    | p :: ps => itemsPart p ++ itemsParts ps
  def itemsPart : Part → List Item
    | .lit v => [.t (.chunk v)]
    | .q q => .t .strQuery :: (itemsQ q ++ [c 41])
  def itemsArgsT : List Query → List Item
    | [] => []
    | q :: qs => c 59 :: .sp :: (itemsQ q ++ itemsArgsT qs)
  def itemsKV : KV → List Item
    | .nameVal n v => .t (keyTok n) :: c 58 :: .sp :: itemsQ v
    | .strVal s v => itemsS s ++ (c 58 :: .sp :: itemsQ v)
    | .qVal kq v => c 40 :: (itemsQ kq ++ (c 41 :: c 58 :: .sp :: itemsQ v))
    | .name n => [.t (keyTok n)]
    | .str s => itemsS s
  def itemsKVsT : List KV → List Item
    | [] => []
    | kv :: kvs => c 44 :: .sp :: (itemsKV kv ++ itemsKVsT kvs)
  def itemsP : Pattern → List Item
    | .var n => [.t (.var n)]
    | .arr ps =>
      (match ps with
       | [] => []
       | p :: ps' => c 91 :: (itemsP p ++ (itemsPsT ps' ++ [c 93])))
    | .obj kvs =>
      (match kvs with
       | [] => []
       | kv :: kvs' => c 123 :: (itemsPKV kv ++ (itemsPKVsT kvs' ++ [c 125])))
  def itemsPsT : List Pattern → List Item
    | [] => []
    | p :: ps => c 44 :: .sp :: (itemsP p ++ itemsPsT ps)
  /-- `?// p ` for every further destructuring alternative -/
  def itemsAltT : List Pattern → List Item
    | [] => []
    | p :: ps => .t .destAlt :: .sp :: (itemsP p ++ (.sp :: itemsAltT ps))
  def itemsPKV : PKV → List Item
    | .nameVal n p => .t (keyTok n) :: c 58 :: .sp :: itemsP p
    | .strVal s p => itemsS s ++ (c 58 :: .sp :: itemsP p)
    | .qVal kq p => c 40 :: (itemsQ kq ++ (c 41 :: c 58 :: .sp :: itemsP p))
    | .name n => [.t (keyTok n)]
  def itemsPKVsT : List PKV → List Item
    | [] => []
    | kv :: kvs => c 44 :: .sp :: (itemsPKV kv ++ itemsPKVsT kvs)
  def itemsIf : IfRest → List Item
    | .end_ => [.sp, k .end_]
    | .else_ e => .sp :: k .else_ :: .sp :: (itemsQ e ++ [.sp, k .end_])
    | .elif_ cnd t r => .sp :: k .elif_ :: .sp :: (itemsQ cnd ++ (.sp :: k .then_ :: .sp :: (itemsQ t ++ itemsIf r)))
end

/-- how a token is spelled -/
def Tok.spell : Tok → Bytes
  | .ch b => [b]
  | .ident s => s | .modIdent s => s | .var s => s | .modVar s => s
  | .index s => 46 :: s
  | .number s => s | .format s => s
  | .kw w => w.text
  | .recurse => [46, 46]
  | .op o => o.text
  | .destAlt => [63, 47, 47]
  | .str v => Printer.encodeString v
  | .chunk v => Printer.encodeBody (v.length + 1) v
  | .strStart => [34] | .strQuery => [92, 40] | .strEnd => [34]
  | .bad _ => []

def isDotOrDigit (ch : UInt8) : Bool := ch == 46 || (48 ≤ ch && ch ≤ 57)

def lastOr (b : Bytes) (last : Option UInt8) : Option UInt8 :=
  match b.getLast? with
  | some ch => some ch
  | none => last

/-- items to bytes; `last` = the last byte written so far -/
def render : Option UInt8 → List Item → Bytes
  | _, [] => []
  | last, .t tok :: r => tok.spell ++ render (lastOr tok.spell last) r
  | _, .sp :: r => 32 :: render (some 32) r
  | _, .nl :: r => 10 :: render (some 10) r
  | last, .soft :: r =>
    match last with
    | some ch => if isDotOrDigit ch then 32 :: render (some 32) r else render last r
    | none => render none r

/-- the tokens among the items -/
def toks : List Item → List Tok
  | [] => []
  | .t tok :: r => tok :: toks r
  | _ :: r => toks r

/-- `q.String()` as the token-level printer gives it -/
def printQ (q : Query) : Bytes := render none (itemsQ q)

/-! ### the reference parser -/

/-- the binary operator a token stands for -/
def binopOfTok : Tok → Option BOp
  | .ch 124 => some .pipe | .ch 44 => some .comma | .ch 43 => some .add | .ch 45 => some .sub
  | .ch 42 => some .mul | .ch 47 => some .div | .ch 37 => some .mod
  | .kw .or_ => some .or_ | .kw .and_ => some .and_
  | .op o => some o
  | _ => none

def expect (t : Tok) : List Tok → Option (List Tok)
  | h :: r => if h = t then some r else none
  | [] => none

/-- a non-associative operator followed by another operator of its level is a syntax error -/
def clash (o : BOp) : List Tok → Bool
  | h :: _ => (match binopOfTok h with | some o2 => o2.lv == o.lv | none => false)
  | [] => false

/-- an object key token: identifier, `$variable` or keyword -/
def keyOfTok : Tok → Option Bytes
  | .ident n => some n
  | .var n => some n
  | .kw w => some w.text
  | _ => none

/-- a formal parameter: identifier or `$variable` -/
def paramOfTok : Tok → Option Bytes
  | .ident n => some n
  | .var n => some n
  | _ => none

/-- `funcargs ')'` after the first parameter: `(';' param)* ')'` -/
def pParamsT : List Tok → Option (List Bytes × List Tok)
  | .ch 41 :: r => some ([], r)
  | .ch 59 :: t :: r =>
    (match paramOfTok t with
     | some p => (match pParamsT r with | some (ps, r') => some (p :: ps, r') | none => none)
     | none => none)
  | _ => none

mutual
  /-- `query` (`item` = a position where `def`, `label`, `as` may appear: not inside an operator
      expression) at minimal operator level `min` -/
  def pClimb : Nat → Bool → Nat → List Tok → Option (Query × List Tok)
    | 0, _, _, _ => none
    | f + 1, item, min, ts =>
      match ts with
      | .kw .def_ :: rest =>
        if item then do
          let (fd, ts) ← pFuncDef f rest
          let (q, ts) ← pClimb f true 1 ts
          some (.def_ fd q, ts)
        else none
      | .kw .label_ :: .var v :: .ch 124 :: rest =>
        if item then do
          let (b, ts) ← pClimb f true 1 rest
          some (.label v b, ts)
        else none
      | _ => do
        let (t, ts) ← pTerm f ts
        pLoop f item min (.term t) ts
  /-- the operator loop of precedence climbing with `lhs` parsed so far -/
  def pLoop : Nat → Bool → Nat → Query → List Tok → Option (Query × List Tok)
    | 0, _, _, _, _ => none
    | f + 1, item, min, lhs, ts =>
      match ts with
      | [] => some (lhs, [])
      | h :: rest =>
        match binopOfTok h with
        | some o =>
          if o.lv < min then some (lhs, ts) else do
            let (rhs, ts') ← pClimb f (decide (o.lv ≤ 2)) o.rmin rest
            if o.assoc == .non && clash o ts' then none else
            pLoop f item min (.binop o lhs rhs) ts'
        | none =>
          match h with
          | .kw .as_ =>
            if item then do
              let (p, ts') ← pPattern f rest
              let (ps, ts') ← pAltT f ts'
              let ts' ← expect (.ch 124) ts'
              let (b, ts') ← pClimb f true 1 ts'
              some (.bind lhs (p :: ps) b, ts')
            else some (lhs, ts)
          | _ => some (lhs, ts)
  /-- after `def`: `name [ '(' params ')' ] ':' query ';'` -/
  def pFuncDef : Nat → List Tok → Option (FuncDef × List Tok)
    | 0, _ => none
    | f + 1, ts =>
      match ts with
      | .ident name :: .ch 58 :: rest => do
        let (b, ts) ← pClimb f true 1 rest
        let ts ← expect (.ch 59) ts
        some (.mk name [] b, ts)
      | .ident name :: .ch 40 :: t :: rest => do
        let p ← paramOfTok t
        let (ps, ts) ← pParamsT rest
        let ts ← expect (.ch 58) ts
        let (b, ts) ← pClimb f true 1 ts
        let ts ← expect (.ch 59) ts
        some (.mk name (p :: ps) b, ts)
      | _ => none
  /-- `term`: a primary form followed by its suffixes -/
  def pTerm : Nat → List Tok → Option (Term × List Tok)
    | 0, _ => none
    | f + 1, ts => do
      let (t, ts) ← pPrimary f ts
      pSuf f t ts
  def pSuf : Nat → Term → List Tok → Option (Term × List Tok)
    | 0, _, _ => none
    | f + 1, t, ts =>
      match ts with
      | .index n :: rest => pSuf f (.suf t (.name n)) rest
      | .ch 63 :: rest => pSuf f (.suf t .opt) rest
      | .ch 91 :: rest => do
        let (s, ts) ← pBracket f rest
        pSuf f (.suf t s) ts
      | .ch 46 :: .ch 91 :: rest => do
        let (s, ts) ← pBracket f rest
        pSuf f (.suf t s) ts
      | .ch 46 :: .str v :: rest => pSuf f (.suf t (.str (.lit v))) rest
      | .ch 46 :: .strStart :: rest => do
        let (ps, ts) ← pParts f rest
        pSuf f (.suf t (.str (.interp ps))) ts
      | _ => some (t, ts)
  /-- after `[` -/
  def pBracket : Nat → List Tok → Option (Suffix × List Tok)
    | 0, _ => none
    | f + 1, ts =>
      match ts with
      | .ch 93 :: rest => some (.iter, rest)
      | .ch 58 :: rest => do
        let (b, ts) ← pClimb f true 1 rest
        let ts ← expect (.ch 93) ts
        some (.sliceTo b, ts)
      | _ => do
        let (a, ts) ← pClimb f true 1 ts
        match ts with
        | .ch 93 :: rest => some (.at a, rest)
        | .ch 58 :: .ch 93 :: rest => some (.sliceFrom a, rest)
        | .ch 58 :: rest => do
          let (b, ts) ← pClimb f true 1 rest
          let ts ← expect (.ch 93) ts
          some (.slice a b, ts)
        | _ => none
  def pPrimary : Nat → List Tok → Option (Term × List Tok)
    | 0, _ => none
    | f + 1, ts =>
      match ts with
      | [] => none
      | .ch 46 :: .ch 91 :: rest => do
        let (s, ts) ← pBracket f rest
        match s with
        | .iter => some (.suf .identity .iter, ts)
        | _ => some (.index s, ts)
      | .ch 46 :: .str v :: rest => some (.index (.str (.lit v)), rest)
      | .ch 46 :: .strStart :: rest => do
        let (ps, ts) ← pParts f rest
        some (.index (.str (.interp ps)), ts)
      | .ch 46 :: rest => some (.identity, rest)
      | .recurse :: rest => some (.recurse, rest)
      | .index n :: rest => some (.index (.name n), rest)
      | .kw .null_ :: rest => some (.null, rest)
      | .kw .true_ :: rest => some (.true_, rest)
      | .kw .false_ :: rest => some (.false_, rest)
      | .ident n :: .ch 40 :: rest => do
        let (a, ts) ← pClimb f true 1 rest
        let (as, ts) ← pArgsT f ts
        some (.func n (a :: as), ts)
      | .modIdent n :: .ch 40 :: rest => do
        let (a, ts) ← pClimb f true 1 rest
        let (as, ts) ← pArgsT f ts
        some (.func n (a :: as), ts)
      | .ident n :: rest => some (.func n [], rest)
      | .modIdent n :: rest => some (.func n [], rest)
      | .var n :: rest => some (.func n [], rest)
      | .modVar n :: rest => some (.func n [], rest)
      | .ch 123 :: .ch 125 :: rest => some (.object [], rest)
      | .ch 123 :: rest => do
        let (kv, ts) ← pKV f rest
        let (kvs, ts) ← pKVsT f ts
        some (.object (kv :: kvs), ts)
      | .ch 91 :: .ch 93 :: rest => some (.arrayEmpty, rest)
      | .ch 91 :: rest => do
        let (q, ts) ← pClimb f true 1 rest
        let ts ← expect (.ch 93) ts
        some (.array q, ts)
      | .number s :: rest => some (.number s, rest)
      | .ch 43 :: rest => do
        let (t, ts) ← pTerm f rest
        some (.unary false t, ts)
      | .ch 45 :: rest => do
        let (t, ts) ← pTerm f rest
        some (.unary true t, ts)
      | .format s :: .str v :: rest => some (.formatStr s (.lit v), rest)
      | .format s :: .strStart :: rest => do
        let (ps, ts) ← pParts f rest
        some (.formatStr s (.interp ps), ts)
      | .format s :: rest => some (.format s, rest)
      | .str v :: rest => some (.str (.lit v), rest)
      | .strStart :: rest => do
        let (ps, ts) ← pParts f rest
        some (.str (.interp ps), ts)
      | .kw .if_ :: rest => do
        let (cnd, ts) ← pClimb f true 1 rest
        let ts ← expect (.kw .then_) ts
        let (t, ts) ← pClimb f true 1 ts
        let (r, ts) ← pIfRest f ts
        some (.if_ cnd t r, ts)
      | .kw .try_ :: rest => do
        let (b, ts) ← pTerm f rest
        match ts with
        | .kw .catch_ :: rest' => do
          let (h, ts) ← pTerm f rest'
          some (.tryCatch (.term b) (.term h), ts)
        | _ => some (.try_ (.term b), ts)
      | .kw .reduce_ :: rest => do
        let (s, ts) ← pClimb f false 3 rest
        let ts ← expect (.kw .as_) ts
        let (p, ts) ← pPattern f ts
        let ts ← expect (.ch 40) ts
        let (a, ts) ← pClimb f true 1 ts
        let ts ← expect (.ch 59) ts
        let (u, ts) ← pClimb f true 1 ts
        let ts ← expect (.ch 41) ts
        some (.reduce s p a u, ts)
      | .kw .foreach_ :: rest => do
        let (s, ts) ← pClimb f false 3 rest
        let ts ← expect (.kw .as_) ts
        let (p, ts) ← pPattern f ts
        let ts ← expect (.ch 40) ts
        let (a, ts) ← pClimb f true 1 ts
        let ts ← expect (.ch 59) ts
        let (u, ts) ← pClimb f true 1 ts
        match ts with
        | .ch 41 :: rest' => some (.foreach s p a u, rest')
        | .ch 59 :: rest' => do
          let (e, ts) ← pClimb f true 1 rest'
          let ts ← expect (.ch 41) ts
          some (.foreach3 s p a u e, ts)
        | _ => none
      | .kw .break_ :: .var v :: rest => some (.break_ v, rest)
      | .ch 40 :: rest => do
        let (q, ts) ← pClimb f true 1 rest
        let ts ← expect (.ch 41) ts
        some (.paren q, ts)
      | _ => none
  /-- the rest of an interpolated string after `tokStringStart` -/
  def pParts : Nat → List Tok → Option (List Part × List Tok)
    | 0, _ => none
    | f + 1, ts =>
      match ts with
      | .chunk v :: rest => do
        let (ps, ts) ← pParts f rest
        some (.lit v :: ps, ts)
      | .strQuery :: rest => do
        let (q, ts) ← pClimb f true 1 rest
        let ts ← expect (.ch 41) ts
        let (ps, ts) ← pParts f ts
        some (.q q :: ps, ts)
      | .strEnd :: rest => some ([], rest)
      | _ => none
  /-- `(';' query)* ')'` -/
  def pArgsT : Nat → List Tok → Option (List Query × List Tok)
    | 0, _ => none
    | f + 1, ts =>
      match ts with
      | .ch 41 :: rest => some ([], rest)
      | .ch 59 :: rest => do
        let (q, ts) ← pClimb f true 1 rest
        let (qs, ts) ← pArgsT f ts
        some (q :: qs, ts)
      | _ => none
  /-- `objectval`: operator expressions joined by `|` -/
  def pObjVal : Nat → List Tok → Option (Query × List Tok)
    | 0, _ => none
    | f + 1, ts => do
      let (e, ts) ← pClimb f false 3 ts
      match ts with
      | .ch 124 :: rest => do
        let (r, ts) ← pObjVal f rest
        some (.binop .pipe e r, ts)
      | _ => some (e, ts)
  def pKV : Nat → List Tok → Option (KV × List Tok)
    | 0, _ => none
    | f + 1, ts =>
      match ts with
      | .str v :: .ch 58 :: rest => do
        let (val, ts) ← pObjVal f rest
        some (.strVal (.lit v) val, ts)
      | .str v :: rest => some (.str (.lit v), rest)
      | .strStart :: rest => do
        let (ps, ts) ← pParts f rest
        match ts with
        | .ch 58 :: rest' => do
          let (val, ts) ← pObjVal f rest'
          some (.strVal (.interp ps) val, ts)
        | _ => some (.str (.interp ps), ts)
      | .ch 40 :: rest => do
        let (kq, ts) ← pClimb f true 1 rest
        let ts ← expect (.ch 41) ts
        let ts ← expect (.ch 58) ts
        let (val, ts) ← pObjVal f ts
        some (.qVal kq val, ts)
      | t :: .ch 58 :: rest => do
        let n ← keyOfTok t
        let (val, ts) ← pObjVal f rest
        some (.nameVal n val, ts)
      | t :: rest => do
        let n ← keyOfTok t
        some (.name n, rest)
      | [] => none
  /-- `(',' objectkeyval)* [','] '}'` -/
  def pKVsT : Nat → List Tok → Option (List KV × List Tok)
    | 0, _ => none
    | f + 1, ts =>
      match ts with
      | .ch 125 :: rest => some ([], rest)
      | .ch 44 :: .ch 125 :: rest => some ([], rest)
      | .ch 44 :: rest => do
        let (kv, ts) ← pKV f rest
        let (kvs, ts) ← pKVsT f ts
        some (kv :: kvs, ts)
      | _ => none
  def pPattern : Nat → List Tok → Option (Pattern × List Tok)
    | 0, _ => none
    | f + 1, ts =>
      match ts with
      | .var n :: rest => some (.var n, rest)
      | .ch 91 :: rest => do
        let (p, ts) ← pPattern f rest
        let (ps, ts) ← pPsT f ts
        some (.arr (p :: ps), ts)
      | .ch 123 :: rest => do
        let (kv, ts) ← pPKV f rest
        let (kvs, ts) ← pPKVsT f ts
        some (.obj (kv :: kvs), ts)
      | _ => none
  /-- `(',' pattern)* ']'` -/
  def pPsT : Nat → List Tok → Option (List Pattern × List Tok)
    | 0, _ => none
    | f + 1, ts =>
      match ts with
      | .ch 93 :: rest => some ([], rest)
      | .ch 44 :: rest => do
        let (p, ts) ← pPattern f rest
        let (ps, ts) ← pPsT f ts
        some (p :: ps, ts)
      | _ => none
  /-- `('?//' pattern)*` -/
  def pAltT : Nat → List Tok → Option (List Pattern × List Tok)
    | 0, _ => none
    | f + 1, ts =>
      match ts with
      | .destAlt :: rest => do
        let (p, ts) ← pPattern f rest
        let (ps, ts) ← pAltT f ts
        some (p :: ps, ts)
      | _ => some ([], ts)
  def pPKV : Nat → List Tok → Option (PKV × List Tok)
    | 0, _ => none
    | f + 1, ts =>
      match ts with
      | .str v :: .ch 58 :: rest => do
        let (p, ts) ← pPattern f rest
        some (.strVal (.lit v) p, ts)
      | .strStart :: rest => do
        let (ps, ts) ← pParts f rest
        let ts ← expect (.ch 58) ts
        let (p, ts) ← pPattern f ts
        some (.strVal (.interp ps) p, ts)
      | .ch 40 :: rest => do
        let (kq, ts) ← pClimb f true 1 rest
        let ts ← expect (.ch 41) ts
        let ts ← expect (.ch 58) ts
        let (p, ts) ← pPattern f ts
        some (.qVal kq p, ts)
      | t :: .ch 58 :: rest => do
        let n ← keyOfTok t
        let (p, ts) ← pPattern f rest
        some (.nameVal n p, ts)
      | .var n :: rest => some (.name n, rest)
      | _ => none
  /-- `(',' objectpattern)* '}'` -/
  def pPKVsT : Nat → List Tok → Option (List PKV × List Tok)
    | 0, _ => none
    | f + 1, ts =>
      match ts with
      | .ch 125 :: rest => some ([], rest)
      | .ch 44 :: rest => do
        let (kv, ts) ← pPKV f rest
        let (kvs, ts) ← pPKVsT f ts
        some (kv :: kvs, ts)
      | _ => none
  /-- after the `then` branch of `if` -/
  def pIfRest : Nat → List Tok → Option (IfRest × List Tok)
    | 0, _ => none
    | f + 1, ts =>
      match ts with
      | .kw .end_ :: rest => some (.end_, rest)
      | .kw .else_ :: rest => do
        let (e, ts) ← pClimb f true 1 rest
        let ts ← expect (.kw .end_) ts
        some (.else_ e, ts)
      | .kw .elif_ :: rest => do
        let (cnd, ts) ← pClimb f true 1 rest
        let ts ← expect (.kw .then_) ts
        let (t, ts) ← pClimb f true 1 ts
        let (r, ts) ← pIfRest f ts
        some (.elif_ cnd t r, ts)
      | _ => none
end

/-- a whole query: every token must be consumed -/
def refParseQ (fuel : Nat) (ts : List Tok) : Option Query :=
  match pClimb fuel true 1 ts with
  | some (q, []) => some q
  | _ => none

/-! ### module header, imports, the program -/

mutual
  /-- `constterm` -/
  def pCTerm : Nat → List Tok → Option (CTerm × List Tok)
    | 0, _ => none
    | f + 1, ts =>
      match ts with
      | .ch 123 :: rest => do
        let (kvs, ts) ← pCObj f rest
        some (.obj kvs, ts)
      | .ch 91 :: .ch 93 :: rest => some (.arr [], rest)
      | .ch 91 :: rest => do
        let (e, ts) ← pCTerm f rest
        let (es, ts) ← pCElemsT f ts
        some (.arr (e :: es), ts)
      | .number s :: rest => some (.number s, rest)
      | .str v :: rest => some (.str v, rest)
      | .kw .null_ :: rest => some (.null, rest)
      | .kw .true_ :: rest => some (.true_, rest)
      | .kw .false_ :: rest => some (.false_, rest)
      | _ => none
  /-- `constobject` after `{` -/
  def pCObj : Nat → List Tok → Option (List CKV × List Tok)
    | 0, _ => none
    | f + 1, ts =>
      match ts with
      | .ch 125 :: rest => some ([], rest)
      | _ => do
        let (kv, ts) ← pCKV f ts
        let (kvs, ts) ← pCKVsT f ts
        some (kv :: kvs, ts)
  def pCKV : Nat → List Tok → Option (CKV × List Tok)
    | 0, _ => none
    | f + 1, ts =>
      match ts with
      | .ident n :: .ch 58 :: rest => do
        let (v, ts) ← pCTerm f rest
        some (.mk false n v, ts)
      | .kw w :: .ch 58 :: rest => do
        let (v, ts) ← pCTerm f rest
        some (.mk false w.text v, ts)
      | .str s :: .ch 58 :: rest => do
        let (v, ts) ← pCTerm f rest
        some (.mk true s v, ts)
      | _ => none
  def pCKVsT : Nat → List Tok → Option (List CKV × List Tok)
    | 0, _ => none
    | f + 1, ts =>
      match ts with
      | .ch 125 :: rest => some ([], rest)
      | .ch 44 :: .ch 125 :: rest => some ([], rest)
      | .ch 44 :: rest => do
        let (kv, ts) ← pCKV f rest
        let (kvs, ts) ← pCKVsT f ts
        some (kv :: kvs, ts)
      | _ => none
  def pCElemsT : Nat → List Tok → Option (List CTerm × List Tok)
    | 0, _ => none
    | f + 1, ts =>
      match ts with
      | .ch 93 :: rest => some ([], rest)
      | .ch 44 :: rest => do
        let (e, ts) ← pCTerm f rest
        let (es, ts) ← pCElemsT f ts
        some (e :: es, ts)
      | _ => none
end

/-- `meta ';'` -/
def pMeta (f : Nat) : List Tok → Option (Option (List CKV) × List Tok)
  | .ch 59 :: rest => some (none, rest)
  | .ch 123 :: rest => do
    let (kvs, ts) ← pCObj f rest
    let ts ← expect (.ch 59) ts
    some (some kvs, ts)
  | _ => none

def pImports : Nat → List Tok → Option (List Import × List Tok)
  | 0, _ => none
  | f + 1, ts =>
    match ts with
    | .kw .import_ :: .str path :: .kw .as_ :: t :: rest => do
      let a ← paramOfTok t
      let (m, ts) ← pMeta f rest
      let (is, ts) ← pImports f ts
      some (.import_ path a m :: is, ts)
    | .kw .import_ :: _ => none
    | .kw .include_ :: .str path :: rest => do
      let (m, ts) ← pMeta f rest
      let (is, ts) ← pImports f ts
      some (.include_ path m :: is, ts)
    | .kw .include_ :: _ => none
    | _ => some ([], ts)

/-- `body`: function definitions only, or a query -/
def pBody : Nat → List Tok → Option Body
  | 0, _ => none
  | f + 1, ts =>
    match ts with
    | [] => some (.defs [])
    | .kw .def_ :: rest => do
      let (fd, ts) ← pFuncDef f rest
      match ← pBody f ts with
      | .defs ds => some (.defs (fd :: ds))
      | .query q => some (.query (.def_ fd q))
    | _ => (refParseQ f ts).map .query

def pProgram (f : Nat) (ts : List Tok) : Option Program :=
  match ts with
  | .kw .module_ :: .ch 123 :: rest => do
    let (kvs, ts) ← pCObj f rest
    let ts ← expect (.ch 59) ts
    let (is, ts) ← pImports f ts
    let b ← pBody f ts
    some { md := some kvs, imports := is, body := b }
  | .kw .module_ :: _ => none
  | _ => do
    let (is, ts) ← pImports f ts
    let b ← pBody f ts
    some { md := none, imports := is, body := b }

/-- the reference parse of a source text -/
def refParse (src : Bytes) : Option Program :=
  let ts := tokensOf src
  pProgram (16 * ts.length + 64) ts

/-! ### the uniform AST the semantic actions of parser.go.y build -/

section
open Gojq.Parse

def setDefs (fd q : Ast) : Ast := q.set "FuncDefs" (.list (fd :: (q.get "FuncDefs").elems))
def appendSuffix (t s : Ast) : Ast := t.set "SuffixList" ((t.get "SuffixList").push s)
def strs (l : List Bytes) : Ast := .list (l.map .str)
def orNil (l : List Ast) : Ast := if l.isEmpty then .nil else .list l

mutual
  def astQ : Query → Ast
    | .term t => qterm (astT t)
    | .binop o l r => Parse.binop (astQ l) o.code (astQ r)
    | .bind s ps b =>
      mk "Query" [("Left", astQ s), ("Op", .int OpPipe), ("Right", astQ b), ("Patterns", .list (astPs ps))]
    | .def_ fd q => setDefs (astFD fd) (astQ q)
    | .label v b => qterm (term TermTypeLabel [("Label", mk "Label" [("Ident", .str v), ("Body", astQ b)])])
  def astFD : FuncDef → Ast
    | .mk name params body =>
      (match params with
       | [] => mk "FuncDef" [("Name", .str name), ("Body", astQ body)]
       | _ => mk "FuncDef" [("Name", .str name), ("Args", strs params), ("Body", astQ body)])
  def astT : Term → Ast
    | .identity => term TermTypeIdentity []
    | .recurse => term TermTypeRecurse []
    | .null => term TermTypeNull []
    | .true_ => term TermTypeTrue []
    | .false_ => term TermTypeFalse []
    | .index i => term TermTypeIndex [("Index", astIdx i)]
    | .func n args =>
      (match args with
       | [] => term TermTypeFunc [("Func", mk "Func" [("Name", .str n)])]
       | _ => term TermTypeFunc [("Func", mk "Func" [("Name", .str n), ("Args", .list (astQs args))])])
    | .object kvs =>
      (match kvs with
       | [] => term TermTypeObject [("Object", mk "Object" [])]
       | _ => term TermTypeObject [("Object", mk "Object" [("KeyVals", .list (astKVs kvs))])])
    | .arrayEmpty => term TermTypeArray [("Array", mk "Array" [])]
    | .array q => term TermTypeArray [("Array", mk "Array" [("Query", astQ q)])]
    | .number s => term TermTypeNumber [("Number", .str s)]
    | .unary neg t =>
      term TermTypeUnary [("Unary", mk "Unary" [("Op", .int (if neg then OpSub else OpAdd)), ("Term", astT t)])]
    | .format f => term TermTypeFormat [("Format", .str f)]
    | .formatStr f s => term TermTypeFormat [("Format", .str f), ("Str", astS s)]
    | .str s => term TermTypeString [("Str", astS s)]
    | .if_ cnd t r =>
      term TermTypeIf [("If", mk "If" [("Cond", astQ cnd), ("Then", astQ t), ("Elif", orNil (astElifs r)), ("Else", astElse r)])]
    | .try_ b => term TermTypeTry [("Try", mk "Try" [("Body", astQ b), ("Catch", .nil)])]
    | .tryCatch b h => term TermTypeTry [("Try", mk "Try" [("Body", astQ b), ("Catch", astQ h)])]
    | .reduce s p a u =>
      term TermTypeReduce [("Reduce", mk "Reduce" [("Query", astQ s), ("Pattern", astP p), ("Start", astQ a), ("Update", astQ u)])]
    | .foreach s p a u =>
      term TermTypeForeach [("Foreach", mk "Foreach" [("Query", astQ s), ("Pattern", astP p), ("Start", astQ a), ("Update", astQ u)])]
    | .foreach3 s p a u e =>
      term TermTypeForeach [("Foreach", mk "Foreach" [("Query", astQ s), ("Pattern", astP p), ("Start", astQ a), ("Update", astQ u), ("Extract", astQ e)])]
    | .break_ v => term TermTypeBreak [("Break", .str v)]
    | .paren q => term TermTypeQuery [("Query", astQ q)]
    | .suf t s => appendSuffix (astT t) (astSuf s)
  /-- `*Index` -/
  def astIdx : Suffix → Ast
    | .name n => mk "Index" [("Name", .str n)]
    | .str s => mk "Index" [("Str", astS s)]
    | .at q => mk "Index" [("Start", astQ q)]
    | .sliceFrom a => mk "Index" [("Start", astQ a), ("IsSlice", .bool true)]
    | .sliceTo b => mk "Index" [("End", astQ b), ("IsSlice", .bool true)]
    | .slice a b => mk "Index" [("Start", astQ a), ("End", astQ b), ("IsSlice", .bool true)]
    | .iter => .nil
    | .opt => .nil
  /-- `*Suffix` -/
  def astSuf : Suffix → Ast
    | .iter => mk "Suffix" [("Iter", .bool true)]
    | .opt => mk "Suffix" [("Optional", .bool true)]
    | .name n => mk "Suffix" [("Index", mk "Index" [("Name", .str n)])]
    | .str s => mk "Suffix" [("Index", mk "Index" [("Str", astS s)])]
    | .at q => mk "Suffix" [("Index", mk "Index" [("Start", astQ q)])]
    | .sliceFrom a => mk "Suffix" [("Index", mk "Index" [("Start", astQ a), ("IsSlice", .bool true)])]
    | .sliceTo b => mk "Suffix" [("Index", mk "Index" [("End", astQ b), ("IsSlice", .bool true)])]
    | .slice a b => mk "Suffix" [("Index", mk "Index" [("Start", astQ a), ("End", astQ b), ("IsSlice", .bool true)])]
  def astS : Str → Ast
    | .lit v => mk "String" [("Str", .str v)]
    | .interp ps => mk "String" [("Queries", .list (astParts ps))]
  def astParts : List Part → List Ast
    | [] => []
    | p :: ps => astPart p :: astParts ps
  def astPart : Part → Ast
    | .lit v => qterm (term TermTypeString [("Str", mk "String" [("Str", .str v)])])
    | .q q => qterm (term TermTypeQuery [("Query", astQ q)])
  def astQs : List Query → List Ast
    | [] => []
    | q :: qs => astQ q :: astQs qs
  def astKV : KV → Ast
    | .nameVal n v => mk "ObjectKeyVal" [("Key", .str n), ("Val", astQ v)]
    | .strVal s v => mk "ObjectKeyVal" [("KeyString", astS s), ("Val", astQ v)]
    | .qVal kq v => mk "ObjectKeyVal" [("KeyQuery", astQ kq), ("Val", astQ v)]
    | .name n => mk "ObjectKeyVal" [("Key", .str n)]
    | .str s => mk "ObjectKeyVal" [("KeyString", astS s)]
  def astKVs : List KV → List Ast
    | [] => []
    | kv :: kvs => astKV kv :: astKVs kvs
  def astP : Pattern → Ast
    | .var n => mk "Pattern" [("Name", .str n)]
    | .arr ps => mk "Pattern" [("Array", .list (astPs ps))]
    | .obj kvs => mk "Pattern" [("Object", .list (astPKVs kvs))]
  def astPs : List Pattern → List Ast
    | [] => []
    | p :: ps => astP p :: astPs ps
  def astPKV : PKV → Ast
    | .nameVal n p => mk "PatternObject" [("Key", .str n), ("Val", astP p)]
    | .strVal s p => mk "PatternObject" [("KeyString", astS s), ("Val", astP p)]
    | .qVal kq p => mk "PatternObject" [("KeyQuery", astQ kq), ("Val", astP p)]
    | .name n => mk "PatternObject" [("Key", .str n)]
  def astPKVs : List PKV → List Ast
    | [] => []
    | kv :: kvs => astPKV kv :: astPKVs kvs
  def astElifs : IfRest → List Ast
    | .end_ => []
    | .else_ _ => []
    | .elif_ cnd t r => mk "IfElif" [("Cond", astQ cnd), ("Then", astQ t)] :: astElifs r
  def astElse : IfRest → Ast
    | .end_ => .nil
    | .else_ e => astQ e
    | .elif_ _ _ r => astElse r
end

mutual
  def astCT : CTerm → Ast
    | .obj kvs => mk "ConstTerm" [("Object", astCObj kvs)]
    | .arr es =>
      (match es with
       | [] => mk "ConstTerm" [("Array", mk "ConstArray" [])]
       | _ => mk "ConstTerm" [("Array", mk "ConstArray" [("Elems", .list (astCTs es))])])
    | .number s => mk "ConstTerm" [("Number", .str s)]
    | .str v => mk "ConstTerm" [("Str", .str v)]
    | .null => mk "ConstTerm" [("Null", .bool true)]
    | .true_ => mk "ConstTerm" [("True", .bool true)]
    | .false_ => mk "ConstTerm" [("False", .bool true)]
  def astCObj : List CKV → Ast
    | [] => mk "ConstObject" []
    | kv :: kvs => mk "ConstObject" [("KeyVals", .list (astCKV kv :: astCKVs kvs))]
  def astCKV : CKV → Ast
    | .mk isStr key v =>
      if isStr then mk "ConstObjectKeyVal" [("KeyString", .str key), ("Val", astCT v)]
      else mk "ConstObjectKeyVal" [("Key", .str key), ("Val", astCT v)]
  def astCKVs : List CKV → List Ast
    | [] => []
    | kv :: kvs => astCKV kv :: astCKVs kvs
  def astCTs : List CTerm → List Ast
    | [] => []
    | e :: es => astCT e :: astCTs es
end

def astMeta : Option (List CKV) → Ast
  | none => .nil
  | some kvs => astCObj kvs

def astImport : Import → Ast
  | .import_ path a m => mk "Import" [("ImportPath", .str path), ("ImportAlias", .str a), ("Meta", astMeta m)]
  | .include_ path m => mk "Import" [("IncludePath", .str path), ("Meta", astMeta m)]

def astBody : Body → Ast
  | .defs ds => mk "Query" [("FuncDefs", orNil (ds.map astFD))]
  | .query q => astQ q

def astProgram (p : Program) : Ast :=
  ((astBody p.body).set "Meta" (astMeta p.md)).set "Imports" (orNil (p.imports.map astImport))

end

/-! ### Printable: the shape invariant of the parser's image -/

/-- an identifier as `scanIdent` reads it: a letter or `_`, then letters, digits, `_` -/
def isIdentName : Bytes → Bool
  | [] => false
  | b :: r => isIdent b false && r.all (fun x => isIdent x true)

/-- `tokIdent`: an identifier that is not a keyword -/
def isPlainIdent (n : Bytes) : Bool := isIdentName n && (kwOfText n).isNone

/-- split at the first `::` -/
def splitColons : Bytes → Option (Bytes × Bytes)
  | 58 :: 58 :: r => some ([], r)
  | b :: r => (match splitColons r with | some (a, z) => some (b :: a, z) | none => none)
  | [] => none

/-- `tokModuleIdent`: `ident::ident` -/
def isModIdent (n : Bytes) : Bool :=
  match splitColons n with
  | some (a, z) => isIdentName a && isIdentName z
  | none => false

/-- `tokVariable`: `$ident` -/
def isVarName : Bytes → Bool
  | 36 :: r => isIdentName r
  | _ => false

/-- `tokModuleVariable`: `$ident::ident` -/
def isModVar : Bytes → Bool
  | 36 :: r => isModIdent r
  | _ => false

/-- an object key: identifier (keyword or not) or `$variable` -/
def okKey (n : Bytes) : Bool := isIdentName n || isVarName n

/-- the text of a number token: what `scanNumber` accepts in full -/
def okNumber : Bytes → Bool
  | [] => false
  | b :: r =>
    (isNumber b && scanNumber .lead r == (r.length, true)) ||
    (b == 46 && isNumber (peek r) && scanNumber .float r == (r.length, true))

/-- `@name` -/
def okFormat : Bytes → Bool
  | 64 :: r => !r.isEmpty && r.all (fun x => isIdent x true)
  | _ => false

/-- a string value the lexer can have decoded: printing and decoding gives it back -/
def okLit (v : Bytes) : Bool := unquoteStr (Printer.encodeBody (v.length + 1) v) == v

/-- an interpolated string has at least one `\(…)`, no empty literal piece and no two adjacent
    literal pieces (the lexer cuts pieces at `\(` only) -/
def partsShape : List Part → Bool
  | [] => true
  | .lit _ :: .lit _ :: _ => false
  | _ :: r => partsShape r

def hasQ : List Part → Bool
  | [] => false
  | .q _ :: _ => true
  | _ :: r => hasQ r

/-- terms that can carry a suffix: a sign and `try` end with a term that takes the suffix itself -/
def suffixable : Term → Bool
  | .unary _ _ => false
  | .try_ _ => false
  | .tryCatch _ _ => false
  | _ => true

/-- a TermTypeIndex term holds one of the `*Index` forms -/
def isIndexForm : Suffix → Bool
  | .iter => false
  | .opt => false
  | _ => true

/-- the right edge is not a binding, definition or label (which extend as far right as possible) -/
def closedQ : Query → Bool
  | .term _ => true
  | .binop _ _ r => closedQ r
  | _ => false

mutual
  /-- the printed term ends with a `try` that has no `catch` (a following `catch` would attach to it) -/
  def openTryT : Term → Bool
    | .try_ _ => true
    | .tryCatch _ h => openTryQ h
    | .unary _ t => openTryT t
    | _ => false
  def openTryQ : Query → Bool
    | .term t => openTryT t
    | _ => false
end

mutual
  /-- `okQ item min q`: `q` is in the image of the parser at a position where operators of level
      ≥ `min` may appear at the root, and (`item`) `def`, `label`, `as` as well -/
  def okQ : Bool → Nat → Query → Bool
    | _, _, .term t => okT t
    | _, min, .binop o l r =>
      decide (min ≤ o.lv) && okQ false o.lmin l && closedQ l && okQ (decide (o.lv ≤ 2)) o.rmin r
    | item, min, .bind s ps b =>
      item && decide (min ≤ 3) && okQ false 3 s &&
        (match ps with
         | [] => false
         | p :: ps' => okP p && okPs ps') && okQ true 1 b
    | item, _, .def_ fd q => item && okFD fd && okQ true 1 q
    | item, _, .label v b => item && isVarName v && okQ true 1 b
  def okFD : FuncDef → Bool
    | .mk name params body =>
      isPlainIdent name && params.all (fun p => isPlainIdent p || isVarName p) && okQ true 1 body
  def okT : Term → Bool
    | .identity => true
    | .recurse => true
    | .null => true
    | .true_ => true
    | .false_ => true
    | .index i => isIndexForm i && okSuf i
    | .func n args =>
      (match args with
       | [] => isPlainIdent n || isModIdent n || isVarName n || isModVar n
       | a :: as => (isPlainIdent n || isModIdent n) && okQ true 1 a && okQs as)
    | .object kvs => okKVs kvs
    | .arrayEmpty => true
    | .array q => okQ true 1 q
    | .number s => okNumber s
    | .unary _ t => okT t
    | .format f => okFormat f
    | .formatStr f s => okFormat f && okS s
    | .str s => okS s
    | .if_ cnd t r => okQ true 1 cnd && okQ true 1 t && okIf r
    | .try_ b => (match b with | .term t => okT t | _ => false)
    | .tryCatch b h =>
      (match b with | .term t => okT t && !openTryT t | _ => false) &&
      (match h with | .term t => okT t | _ => false)
    | .reduce s p a u => okQ false 3 s && okP p && okQ true 1 a && okQ true 1 u
    | .foreach s p a u => okQ false 3 s && okP p && okQ true 1 a && okQ true 1 u
    | .foreach3 s p a u e => okQ false 3 s && okP p && okQ true 1 a && okQ true 1 u && okQ true 1 e
    | .break_ v => isVarName v
    | .paren q => okQ true 1 q
    | .suf t s => okT t && suffixable t && okSuf s
  def okSuf : Suffix → Bool
    | .name n => isIdentName n
    | .str s => okS s
    | .at q => okQ true 1 q
    | .sliceFrom a => okQ true 1 a
    | .sliceTo b => okQ true 1 b
    | .slice a b => okQ true 1 a && okQ true 1 b
    | .iter => true
    | .opt => true
  def okS : Str → Bool
    | .lit v => okLit v
    | .interp ps => partsShape ps && hasQ ps && okParts ps
  def okParts : List Part → Bool
    | [] => true
    | p :: ps => okPart p && okParts ps
  def okPart : Part → Bool
    | .lit v => okLit v && !v.isEmpty
    | .q q => okQ true 1 q
  def okQs : List Query → Bool
    | [] => true
    | q :: qs => okQ true 1 q && okQs qs
  /-- `objectval`: operator expressions joined by `|` (right-nested) -/
  def okOV : Query → Bool
    | .term t => okT t
    | .binop o l r =>
      if o = .pipe then okQ false 3 l && closedQ l && okOV r
      else decide (3 ≤ o.lv) && okQ false o.lmin l && closedQ l && okQ false o.rmin r
    | _ => false
  def okKV : KV → Bool
    | .nameVal n v => okKey n && okOV v
    | .strVal s v => okS s && okOV v
    | .qVal kq v => okQ true 1 kq && okOV v
    | .name n => okKey n
    | .str s => okS s
  def okKVs : List KV → Bool
    | [] => true
    | kv :: kvs => okKV kv && okKVs kvs
  def okP : Pattern → Bool
    | .var n => isVarName n
    | .arr ps => !ps.isEmpty && okPs ps
    | .obj kvs => !kvs.isEmpty && okPKVs kvs
  def okPs : List Pattern → Bool
    | [] => true
    | p :: ps => okP p && okPs ps
  def okPKV : PKV → Bool
    | .nameVal n p => okKey n && okP p
    | .strVal s p => okS s && okP p
    | .qVal kq p => okQ true 1 kq && okP p
    | .name n => isVarName n
  def okPKVs : List PKV → Bool
    | [] => true
    | kv :: kvs => okPKV kv && okPKVs kvs
  def okIf : IfRest → Bool
    | .end_ => true
    | .else_ e => okQ true 1 e
    | .elif_ cnd t r => okQ true 1 cnd && okQ true 1 t && okIf r
end

/-- the OPERATOR-SHAPE part of `okQ` alone (terms, names, patterns and the queries inside them are
    not inspected): every operand the printer writes without parentheses binds tightly enough -/
def precOK : Bool → Nat → Query → Bool
  | _, _, .term _ => true
  | _, min, .binop o l r =>
    decide (min ≤ o.lv) && precOK false o.lmin l && closedQ l && precOK (decide (o.lv ≤ 2)) o.rmin r
  | item, min, .bind s ps b => item && decide (min ≤ 3) && precOK false 3 s && !ps.isEmpty && precOK true 1 b
  | item, _, .def_ _ q => item && precOK true 1 q
  | item, _, .label _ b => item && precOK true 1 b

/-- `Printable q`: `q` has the shape of a query the parser can produce -/
def Printable (q : Query) : Bool := okQ true 1 q

/-! ### printing a whole program (module header, imports, definitions-only body) -/

mutual
  def itemsCT : CTerm → List Item
    | .obj kvs => itemsCObj kvs
    | .arr es =>
      (match es with
       | [] => [c 91, c 93]
       | e :: es' => c 91 :: (itemsCT e ++ (itemsCTsT es' ++ [c 93])))
    | .number s => [.t (.number s)]
    | .str v => [.t (.str v)]
    | .null => [k .null_]
    | .true_ => [k .true_]
    | .false_ => [k .false_]
  def itemsCObj : List CKV → List Item
    | [] => [c 123, c 125]
    | kv :: kvs => c 123 :: .sp :: (itemsCKV kv ++ (itemsCKVsT kvs ++ [.sp, c 125]))
  def itemsCKV : CKV → List Item
    | .mk isStr key v => .t (if isStr then .str key else keyTok key) :: c 58 :: .sp :: itemsCT v
  def itemsCKVsT : List CKV → List Item
    | [] => []
    | kv :: kvs => c 44 :: .sp :: (itemsCKV kv ++ itemsCKVsT kvs)
  def itemsCTsT : List CTerm → List Item
    | [] => []
    | e :: es => c 44 :: .sp :: (itemsCT e ++ itemsCTsT es)
end

def itemsMeta : Option (List CKV) → List Item
  | none => []
  | some kvs => .sp :: itemsCObj kvs

def itemsImport : Import → List Item
  | .import_ path a m => k .import_ :: .sp :: .t (.str path) :: .sp :: k .as_ :: .sp :: .t (keyTok a) ::
      (itemsMeta m ++ [c 59, .nl])
  | .include_ path m => k .include_ :: .sp :: .t (.str path) :: (itemsMeta m ++ [c 59, .nl])

def itemsBody : Body → List Item
  | .defs ds => ds.flatMap (fun fd => itemsFD fd ++ [.sp])
  | .query q => itemsQ q

def itemsProgram (p : Program) : List Item :=
  (match p.md with
   | none => []
   | some kvs => k .module_ :: .sp :: (itemsCObj kvs ++ [c 59, .nl])) ++
  (p.imports.flatMap itemsImport ++ itemsBody p.body)

/-- `q.String()` of a whole program -/
def printProgram (p : Program) : Bytes := render none (itemsProgram p)

/-! ### lexing printed text: which token sequences with the printer's separators read back -/

/-- the operators that are tokens of their own class (`//`, the update and comparison operators) -/
def isOpTok (o : BOp) : Bool :=
  match o with
  | .alt | .assign | .modify | .updAdd | .updSub | .updMul | .updDiv | .updMod | .updAlt
  | .eq | .ne | .lt | .le | .gt | .ge => true
  | _ => false

/-- bytes that are always a token of their own: `( ) [ ] { } , : ;` -/
def isSolo (c : UInt8) : Bool :=
  c == 40 || c == 41 || c == 91 || c == 93 || c == 123 || c == 125 || c == 44 || c == 58 || c == 59

/-- bytes that are a token of their own unless `=` follows: `| + - * %` -/
def isEqExt (c : UInt8) : Bool := c == 124 || c == 43 || c == 45 || c == 42 || c == 37

/-- the scanner that reads `t` stops at the end of `t`'s spelling when `fol` follows -/
def stops : Tok → Bytes → Bool
  | .ch c, fol =>
    if isSolo c then true
    else if c == 46 then !(peek fol == 46 || isIdent (peek fol) false || isNumber (peek fol))
    else if isEqExt c then !(peek fol == 61)
    else if c == 47 then !(peek fol == 61 || peek fol == 47)
    else if c == 63 then !(peek fol == 47 && peek (fol.drop 1) == 47)
    else false
  | .ident _, fol | .kw _, fol | .var _, fol =>
    !isIdent (peek fol) true &&
      (match fol with | 58 :: 58 :: c :: _ => !isIdent c false | _ => true)
  | .modIdent _, fol | .modVar _, fol | .index _, fol | .format _, fol => !isIdent (peek fol) true
  | .number _, fol => !(isNumber (peek fol) || peek fol == 46 || isIdent (peek fol) false)
  | .recurse, _ => true
  | .op o, fol =>
    (match o with
     | .alt | .assign | .lt | .gt => !(peek fol == 61)
     | _ => true)
  | .destAlt, _ => true
  | .str _, _ => true
  | .strStart, fol => (match scanString fol 0 with | .interp _ => true | _ => false)
  | .chunk _, fol => (match fol with | 34 :: _ => true | 92 :: 40 :: _ => true | _ => false)
  | .strQuery, _ => true
  | .strEnd, _ => true
  | .bad _, _ => false

/-- the single-byte tokens the printer writes -/
def okCh (c : UInt8) : Bool := isSolo c || c == 46 || isEqExt c || c == 47 || c == 63

/-- the token is one the lexer can deliver, with a spelling it reads back as that token -/
def Tok.wf : Tok → Bool
  | .ch c => okCh c
  | .ident s => isPlainIdent s
  | .modIdent s => isModIdent s
  | .var s => isVarName s
  | .modVar s => isModVar s
  | .index s => isIdentName s
  | .number s => okNumber s
  | .format s => okFormat s
  | .kw _ => true
  | .recurse => true
  | .op o => isOpTok o
  | .destAlt => true
  | .str v => okLit v
  | .chunk v => okLit v && !v.isEmpty
  | .strStart => true
  | .strQuery => true
  | .strEnd => true
  | .bad _ => false

/-- tokens read in string mode -/
def Tok.inStrTok : Tok → Bool
  | .chunk _ => true
  | .strQuery => true
  | .strEnd => true
  | _ => false

/-- `inString` after the token -/
def Tok.modeAfter : Tok → Bool
  | .strStart => true
  | .chunk _ => true
  | _ => false

/-- THE ADJACENCY CONDITION, decidable: every token is well-formed and read in the mode the
    tokens before it leave the lexer in, its scanner stops before the text rendered after it, and
    the printer's separators appear outside strings only.  `last` = the last byte written before
    the items (for the printer's `soft` space), `inStr` / `stk` = the tokenizer's mode. -/
def itemsOK : Option UInt8 → Bool → List Nat → List Item → Bool
  | _, _, _, [] => true
  | last, inStr, stk, .t t :: r =>
    t.wf && (t.inStrTok == inStr) && stops t (render (lastOr t.spell last) r) &&
      itemsOK (lastOr t.spell last) (if (stepStk t stk).2 then true else t.modeAfter) (stepStk t stk).1 r
  | _, inStr, stk, .sp :: r => !inStr && itemsOK (some 32) false stk r
  | _, inStr, stk, .nl :: r => !inStr && itemsOK (some 10) false stk r
  | last, inStr, stk, .soft :: r =>
    !inStr &&
      (match last with
       | some ch => if isDotOrDigit ch then itemsOK (some 32) false stk r else itemsOK last false stk r
       | none => itemsOK none false stk r)

/-- the order in which the lexer delivers the tokens of interpolated strings: after the opening
    quote a `\(` follows, directly or after one literal piece; never two literal pieces in a row -/
def shapeOK : List Tok → Bool
  | [] => true
  | .strStart :: rest =>
    (match rest with
     | .strQuery :: _ => shapeOK rest
     | .chunk _ :: .strQuery :: _ => shapeOK rest
     | _ => false)
  | .chunk _ :: rest =>
    (match rest with
     | .chunk _ :: _ => false
     | _ => shapeOK rest)
  | _ :: rest => shapeOK rest

/-- well-formedness as far as the parser's image is concerned: single bytes and error tokens
    carry no content -/
def Tok.wfI : Tok → Bool
  | .ch _ => true
  | .bad _ => true
  | t => t.wf

/-- a token list the lexer can have produced, as far as the parser's image is concerned: every
    token well-formed, interpolation tokens in lexer order (decidable) -/
def goodB (ts : List Tok) : Bool := ts.all Tok.wfI && shapeOK ts

/-- `Spaced q`: the printed text of `q` satisfies the adjacency condition (decidable) -/
def Spaced (q : Query) : Bool := itemsOK none false [] (itemsQ q)

/-! ### Printable programs: module header, imports, definitions-only bodies -/

mutual
  def okCT : CTerm → Bool
    | .obj kvs => okCKVs kvs
    | .arr es => okCTs es
    | .number s => okNumber s
    | .str v => okLit v
    | .null => true
    | .true_ => true
    | .false_ => true
  def okCKV : CKV → Bool
    | .mk isStr key v => (if isStr then okLit key else isIdentName key) && okCT v
  def okCKVs : List CKV → Bool
    | [] => true
    | kv :: kvs => okCKV kv && okCKVs kvs
  def okCTs : List CTerm → Bool
    | [] => true
    | e :: es => okCT e && okCTs es
end

def okMeta : Option (List CKV) → Bool
  | none => true
  | some kvs => okCKVs kvs

def okImport : Import → Bool
  | .import_ path a m => okLit path && (isPlainIdent a || isVarName a) && okMeta m
  | .include_ path m => okLit path && okMeta m

def okBody : Body → Bool
  | .defs ds => ds.all okFD
  | .query q => Printable q

/-- `PrintableProgram p`: `p` has the shape of a program the parser can produce -/
def PrintableProgram (p : Program) : Bool := okMeta p.md && p.imports.all okImport && okBody p.body

/-- the reference parse of a source text with an explicit recursion budget -/
def refParseF (f : Nat) (src : Bytes) : Option Program := pProgram f (tokensOf src)

/-- executable self-check (used by the exploratory stream only): the reference parser's result is
    Printable and parsing its token-level print gives it back -/
def selfCheckP (src : Bytes) : String :=
  match refParse src with
  | none => "rejected"
  | some p =>
    if !PrintableProgram p then "NOT-PRINTABLE"
    else if !itemsOK none false [] (itemsProgram p) then "NOT-SPACED"
    else
      match refParse (printProgram p) with
      | some p' => if Parse.dump (astProgram p') == Parse.dump (astProgram p) then "ok" else "DIFFERENT"
      | none => "REPARSE-FAILED"

def selfCheck (src : Bytes) : String :=
  match refParseQ (16 * src.length + 64) (tokensOf src) with
  | none => selfCheckP src
  | some q =>
    if !goodB (tokensOf src) then "TOKENS-NOT-GOOD"
    else if !Printable q then "NOT-PRINTABLE"
    else if !Spaced q then "NOT-SPACED"
    else
      let ts := tokensOf (printQ q)
      if ts != toks (itemsQ q) then "LEX-MISMATCH"
      else match refParseQ (16 * ts.length + 64) ts with
        | some q' => if Parse.dump (astQ q') == Parse.dump (astQ q) then "ok" else "DIFFERENT"
        | none => "REPARSE-FAILED"


/-
  gojq.Parse = yyParse over the real lexer, and the semantic actions of parser.go.y.

  * `parse src` couples `Lexer.lex` and `LALR.run`: the look-ahead is read lazily exactly as the
    stock loop does, and the reductions listed in `Generated.Lalr.inStringRules` execute
    `yylex.(*lexer).inString = true` (the parser → lexer feedback of string interpolation).
  * `Ast` is a uniform mirror of the structs of query.go: a pointer to a struct is
    `obj "<TypeName>" fields` (or `nil`), a slice is `list` (or `nil` for a nil slice — the
    parser produces both nil and empty non-nil slices and reflect.DeepEqual distinguishes them),
    strings are byte lists, Operator / TermType are their numeric constants.
  * `act sig kids` is the action of the production with signature `sig` (text of the rule in
    parser.go.y as extracted by verifgen), so the mapping survives a renumbering of rules and an
    unknown production is reported, not guessed.  Productions without an action copy `$1`.
  * `dump` is the canonical text compared with a reflection dump of the real `*Query` in the
    `parse` stream: zero-valued fields are omitted, fields are sorted by name.
-/
import Gojq.Model.Lexer
import Gojq.Model.LALR
namespace Gojq.Parse
open Gojq Gojq.Lexer Gojq.LALR Gojq.Generated.Lalr

/-! ### the coupled parser -/

def source : Source LState LVal where
  next := fun s => let (ty, lv, s') := lex s; (translate ty, lv, s')
  onReduce := fun r s => if inStringRules.contains r then { s with inString := true } else s

def parseFuel (src : Bytes) : Nat := 80 * (src.length + 4)

def parse (src : Bytes) : Outcome LState LVal :=
  start source (parseFuel src) (LState.init src)

/-! ### uniform AST -/

inductive Ast where
  | nil
  | str (s : Bytes)
  | int (n : Nat)
  | bool (b : Bool)
  | list (xs : List Ast)
  | obj (type : String) (fields : List (String × Ast))
  deriving Repr, Inhabited

namespace Ast

def get (a : Ast) (f : String) : Ast :=
  match a with
  | .obj _ fs => (fs.lookup f).getD .nil
  | _ => .nil

def setField (f : String) (v : Ast) : List (String × Ast) → List (String × Ast)
  | [] => [(f, v)]
  | (g, w) :: rest => if g == f then (f, v) :: rest else (g, w) :: setField f v rest

def set (a : Ast) (f : String) (v : Ast) : Ast :=
  match a with
  | .obj t fs => .obj t (setField f v fs)
  | a => a

/-- Go `append(xs, x)` on a possibly nil slice -/
def push (xs : Ast) (x : Ast) : Ast :=
  match xs with
  | .list l => .list (l ++ [x])
  | _ => .list [x]

def isZero : Ast → Bool
  | .nil => true
  | .str s => s.isEmpty
  | .int n => n == 0
  | .bool b => !b
  | _ => false

def elems : Ast → List Ast
  | .list l => l
  | _ => []

def strOf : Ast → Bytes
  | .str s => s
  | _ => []

end Ast

/-- semantic value of a stack entry (`yySymType`) -/
structure Sem where
  val : Ast := .nil
  tok : Bytes := []
  op : Nat := 0
  deriving Inhabited

def mk (t : String) (fs : List (String × Ast)) : Ast := .obj t fs
def term (ty : Nat) (fs : List (String × Ast)) : Ast := .obj "Term" (("Type", .int ty) :: fs)
def qterm (t : Ast) : Ast := mk "Query" [("Term", t)]
def binop (l : Ast) (op : Nat) (r : Ast) : Ast := mk "Query" [("Left", l), ("Op", .int op), ("Right", r)]

inductive ActResult where
  | ok (s : Sem)
  | unknown (sig : String)

/-- the semantic action of one production; `k` = the values `$1 … $n` -/
def act (sig : String) (k : List Sem) : ActResult :=
  let d (i : Nat) : Sem := k.getD (i - 1) default
  let v (i : Nat) : Ast := (d i).val
  let t (i : Nat) : Ast := .str (d i).tok
  let ret (a : Ast) : ActResult := .ok { d 1 with val := a }
  let copy : ActResult := .ok (d 1)
  let appendSuffix (s : Ast) : ActResult := ret ((v 1).set "SuffixList" (((v 1).get "SuffixList").push s))
  match sig with
  | "program: header imports body" => ret (((v 3).set "Meta" (v 1)).set "Imports" (v 2))
  | "header: " => ret .nil
  | "header: tokModule constobject ';'" => ret (v 2)
  | "imports: " => ret .nil
  | "imports: imports import" => ret ((v 1).push (v 2))
  | "import: tokImport tokString tokAs tokIdentVariable meta ';'" =>
    ret (mk "Import" [("ImportPath", t 2), ("ImportAlias", t 4), ("Meta", v 5)])
  | "import: tokInclude tokString meta ';'" => ret (mk "Import" [("IncludePath", t 2), ("Meta", v 3)])
  | "meta: " => ret .nil
  | "meta: constobject" => copy
  | "body: funcdefs" =>
    ret (mk "Query" [("FuncDefs", match v 1 with | .list l => .list l.reverse | a => a)])
  | "body: query" => copy
  | "funcdefs: " => ret .nil
  | "funcdefs: funcdef funcdefs" => ret ((v 2).push (v 1))
  | "funcdef: tokDef tokIdent ':' query ';'" => ret (mk "FuncDef" [("Name", t 2), ("Body", v 4)])
  | "funcdef: tokDef tokIdent '(' funcargs ')' ':' query ';'" =>
    ret (mk "FuncDef" [("Name", t 2), ("Args", v 4), ("Body", v 7)])
  | "funcargs: tokIdentVariable" => ret (.list [t 1])
  | "funcargs: funcargs ';' tokIdentVariable" => ret ((v 1).push (t 3))
  | "tokIdentVariable: tokIdent" => copy
  | "tokIdentVariable: tokVariable" => copy
  | "query: funcdef query" =>
    -- prependFuncDef(query.FuncDefs, $1)
    .ok { d 1 with val := (v 2).set "FuncDefs" (.list (v 1 :: ((v 2).get "FuncDefs").elems)) }
  | "query: query '|' query" => ret (binop (v 1) OpPipe (v 3))
  | "query: query tokAs bindpatterns '|' query" =>
    ret (mk "Query" [("Left", v 1), ("Op", .int OpPipe), ("Right", v 5), ("Patterns", v 3)])
  | "query: tokLabel tokVariable '|' query" =>
    ret (qterm (term TermTypeLabel [("Label", mk "Label" [("Ident", t 2), ("Body", v 4)])]))
  | "query: query ',' query" => ret (binop (v 1) OpComma (v 3))
  | "query: expr" => copy
  | "expr: expr tokAltOp expr" => ret (binop (v 1) (d 2).op (v 3))
  | "expr: expr tokUpdateOp expr" => ret (binop (v 1) (d 2).op (v 3))
  | "expr: expr tokOrOp expr" => ret (binop (v 1) OpOr (v 3))
  | "expr: expr tokAndOp expr" => ret (binop (v 1) OpAnd (v 3))
  | "expr: expr tokCompareOp expr" => ret (binop (v 1) (d 2).op (v 3))
  | "expr: expr '+' expr" => ret (binop (v 1) OpAdd (v 3))
  | "expr: expr '-' expr" => ret (binop (v 1) OpSub (v 3))
  | "expr: expr '*' expr" => ret (binop (v 1) OpMul (v 3))
  | "expr: expr '/' expr" => ret (binop (v 1) OpDiv (v 3))
  | "expr: expr '%' expr" => ret (binop (v 1) OpMod (v 3))
  | "expr: term" => ret (qterm (v 1))
  | "bindpatterns: pattern" => ret (.list [v 1])
  | "bindpatterns: bindpatterns tokDestAltOp pattern" => ret ((v 1).push (v 3))
  | "pattern: tokVariable" => ret (mk "Pattern" [("Name", t 1)])
  | "pattern: '[' arraypatterns ']'" => ret (mk "Pattern" [("Array", v 2)])
  | "pattern: '{' objectpatterns '}'" => ret (mk "Pattern" [("Object", v 2)])
  | "arraypatterns: pattern" => ret (.list [v 1])
  | "arraypatterns: arraypatterns ',' pattern" => ret ((v 1).push (v 3))
  | "objectpatterns: objectpattern" => ret (.list [v 1])
  | "objectpatterns: objectpatterns ',' objectpattern" => ret ((v 1).push (v 3))
  | "objectpattern: objectkey ':' pattern" => ret (mk "PatternObject" [("Key", t 1), ("Val", v 3)])
  | "objectpattern: string ':' pattern" => ret (mk "PatternObject" [("KeyString", v 1), ("Val", v 3)])
  | "objectpattern: '(' query ')' ':' pattern" => ret (mk "PatternObject" [("KeyQuery", v 2), ("Val", v 5)])
  | "objectpattern: tokVariable" => ret (mk "PatternObject" [("Key", t 1)])
  | "term: '.'" => ret (term TermTypeIdentity [])
  | "term: tokRecurse" => ret (term TermTypeRecurse [])
  | "term: tokIndex" => ret (term TermTypeIndex [("Index", mk "Index" [("Name", t 1)])])
  | "term: '.' suffix" =>
    if ((v 2).get "Iter").isZero then ret (term TermTypeIndex [("Index", (v 2).get "Index")])
    else ret (term TermTypeIdentity [("SuffixList", .list [v 2])])
  | "term: '.' string" => ret (term TermTypeIndex [("Index", mk "Index" [("Str", v 2)])])
  | "term: tokNull" => ret (term TermTypeNull [])
  | "term: tokTrue" => ret (term TermTypeTrue [])
  | "term: tokFalse" => ret (term TermTypeFalse [])
  | "term: tokIdentModuleIdent" => ret (term TermTypeFunc [("Func", mk "Func" [("Name", t 1)])])
  | "term: tokIdentModuleIdent '(' args ')'" =>
    ret (term TermTypeFunc [("Func", mk "Func" [("Name", t 1), ("Args", v 3)])])
  | "term: tokVariableModuleVariable" => ret (term TermTypeFunc [("Func", mk "Func" [("Name", t 1)])])
  | "term: '{' '}'" => ret (term TermTypeObject [("Object", mk "Object" [])])
  | "term: '{' objectkeyvals '}'" => ret (term TermTypeObject [("Object", mk "Object" [("KeyVals", v 2)])])
  | "term: '{' objectkeyvals ',' '}'" => ret (term TermTypeObject [("Object", mk "Object" [("KeyVals", v 2)])])
  | "term: '[' ']'" => ret (term TermTypeArray [("Array", mk "Array" [])])
  | "term: '[' query ']'" => ret (term TermTypeArray [("Array", mk "Array" [("Query", v 2)])])
  | "term: tokNumber" => ret (term TermTypeNumber [("Number", t 1)])
  | "term: '+' term" => ret (term TermTypeUnary [("Unary", mk "Unary" [("Op", .int OpAdd), ("Term", v 2)])])
  | "term: '-' term" => ret (term TermTypeUnary [("Unary", mk "Unary" [("Op", .int OpSub), ("Term", v 2)])])
  | "term: tokFormat" => ret (term TermTypeFormat [("Format", t 1)])
  | "term: tokFormat string" => ret (term TermTypeFormat [("Format", t 1), ("Str", v 2)])
  | "term: string" => ret (term TermTypeString [("Str", v 1)])
  | "term: tokIf query tokThen query ifelifs ifelse tokEnd" =>
    ret (term TermTypeIf [("If", mk "If" [("Cond", v 2), ("Then", v 4), ("Elif", v 5), ("Else", v 6)])])
  | "term: tokTry expr trycatch" => ret (term TermTypeTry [("Try", mk "Try" [("Body", v 2), ("Catch", v 3)])])
  | "term: tokReduce expr tokAs pattern '(' query ';' query ')'" =>
    ret (term TermTypeReduce [("Reduce", mk "Reduce" [("Query", v 2), ("Pattern", v 4), ("Start", v 6), ("Update", v 8)])])
  | "term: tokForeach expr tokAs pattern '(' query ';' query ')'" =>
    ret (term TermTypeForeach [("Foreach", mk "Foreach" [("Query", v 2), ("Pattern", v 4), ("Start", v 6), ("Update", v 8)])])
  | "term: tokForeach expr tokAs pattern '(' query ';' query ';' query ')'" =>
    ret (term TermTypeForeach [("Foreach", mk "Foreach" [("Query", v 2), ("Pattern", v 4), ("Start", v 6), ("Update", v 8), ("Extract", v 10)])])
  | "term: tokBreak tokVariable" => ret (term TermTypeBreak [("Break", t 2)])
  | "term: '(' query ')'" => ret (term TermTypeQuery [("Query", v 2)])
  | "term: term tokIndex" => appendSuffix (mk "Suffix" [("Index", mk "Index" [("Name", t 2)])])
  | "term: term suffix" => appendSuffix (v 2)
  | "term: term '?'" => appendSuffix (mk "Suffix" [("Optional", .bool true)])
  | "term: term '.' suffix" => appendSuffix (v 3)
  | "term: term '.' string" => appendSuffix (mk "Suffix" [("Index", mk "Index" [("Str", v 3)])])
  | "string: tokString" => ret (mk "String" [("Str", t 1)])
  | "string: tokStringStart stringparts tokStringEnd" => ret (mk "String" [("Queries", v 2)])
  | "stringparts: " => ret (.list [])
  | "stringparts: stringparts tokString" =>
    ret ((v 1).push (qterm (term TermTypeString [("Str", mk "String" [("Str", t 2)])])))
  | "stringparts: stringparts tokStringQuery query ')'" =>
    ret ((v 1).push (qterm (term TermTypeQuery [("Query", v 3)])))
  | "tokIdentModuleIdent: tokIdent" => copy
  | "tokIdentModuleIdent: tokModuleIdent" => copy
  | "tokVariableModuleVariable: tokVariable" => copy
  | "tokVariableModuleVariable: tokModuleVariable" => copy
  | "suffix: '[' ']'" => ret (mk "Suffix" [("Iter", .bool true)])
  | "suffix: '[' query ']'" => ret (mk "Suffix" [("Index", mk "Index" [("Start", v 2)])])
  | "suffix: '[' query ':' ']'" => ret (mk "Suffix" [("Index", mk "Index" [("Start", v 2), ("IsSlice", .bool true)])])
  | "suffix: '[' ':' query ']'" => ret (mk "Suffix" [("Index", mk "Index" [("End", v 3), ("IsSlice", .bool true)])])
  | "suffix: '[' query ':' query ']'" =>
    ret (mk "Suffix" [("Index", mk "Index" [("Start", v 2), ("End", v 4), ("IsSlice", .bool true)])])
  | "args: query" => ret (.list [v 1])
  | "args: args ';' query" => ret ((v 1).push (v 3))
  | "ifelifs: " => ret .nil
  | "ifelifs: ifelifs tokElif query tokThen query" => ret ((v 1).push (mk "IfElif" [("Cond", v 3), ("Then", v 5)]))
  | "ifelse: " => ret .nil
  | "ifelse: tokElse query" => ret (v 2)
  | "trycatch: " => ret .nil
  | "trycatch: tokCatch expr" => ret (v 2)
  | "objectkeyvals: objectkeyval" => ret (.list [v 1])
  | "objectkeyvals: objectkeyvals ',' objectkeyval" => ret ((v 1).push (v 3))
  | "objectkeyval: objectkey ':' objectval" => ret (mk "ObjectKeyVal" [("Key", t 1), ("Val", v 3)])
  | "objectkeyval: string ':' objectval" => ret (mk "ObjectKeyVal" [("KeyString", v 1), ("Val", v 3)])
  | "objectkeyval: '(' query ')' ':' objectval" => ret (mk "ObjectKeyVal" [("KeyQuery", v 2), ("Val", v 5)])
  | "objectkeyval: objectkey" => ret (mk "ObjectKeyVal" [("Key", t 1)])
  | "objectkeyval: string" => ret (mk "ObjectKeyVal" [("KeyString", v 1)])
  | "objectkey: tokIdent" => copy
  | "objectkey: tokVariable" => copy
  | "objectkey: tokKeyword" => copy
  | "objectval: objectval '|' objectval" => ret (binop (v 1) OpPipe (v 3))
  | "objectval: expr" => copy
  | "constterm: constobject" => ret (mk "ConstTerm" [("Object", v 1)])
  | "constterm: constarray" => ret (mk "ConstTerm" [("Array", v 1)])
  | "constterm: tokNumber" => ret (mk "ConstTerm" [("Number", t 1)])
  | "constterm: tokString" => ret (mk "ConstTerm" [("Str", t 1)])
  | "constterm: tokNull" => ret (mk "ConstTerm" [("Null", .bool true)])
  | "constterm: tokTrue" => ret (mk "ConstTerm" [("True", .bool true)])
  | "constterm: tokFalse" => ret (mk "ConstTerm" [("False", .bool true)])
  | "constobject: '{' '}'" => ret (mk "ConstObject" [])
  | "constobject: '{' constobjectkeyvals '}'" => ret (mk "ConstObject" [("KeyVals", v 2)])
  | "constobject: '{' constobjectkeyvals ',' '}'" => ret (mk "ConstObject" [("KeyVals", v 2)])
  | "constobjectkeyvals: constobjectkeyval" => ret (.list [v 1])
  | "constobjectkeyvals: constobjectkeyvals ',' constobjectkeyval" => ret ((v 1).push (v 3))
  | "constobjectkeyval: tokIdent ':' constterm" => ret (mk "ConstObjectKeyVal" [("Key", t 1), ("Val", v 3)])
  | "constobjectkeyval: tokKeyword ':' constterm" => ret (mk "ConstObjectKeyVal" [("Key", t 1), ("Val", v 3)])
  | "constobjectkeyval: tokString ':' constterm" => ret (mk "ConstObjectKeyVal" [("KeyString", t 1), ("Val", v 3)])
  | "constarray: '[' ']'" => ret (mk "ConstArray" [])
  | "constarray: '[' constarrayelems ']'" => ret (mk "ConstArray" [("Elems", v 2)])
  | "constarrayelems: constterm" => ret (.list [v 1])
  | "constarrayelems: constarrayelems ',' constterm" => ret ((v 1).push (v 3))
  | sig => if sig.startsWith "tokKeyword: " then copy else .unknown sig

def ruleSigArr : Array String := ruleSigs.toArray

mutual
  /-- evaluate the semantic actions bottom-up over the parse tree; `none` = unknown production -/
  def sem : PT LVal → Except String Sem
    | .tok _ lv => .ok { tok := lv.token, op := lv.operator }
    | .node r kids =>
      match semList kids with
      | .error e => .error e
      | .ok ks =>
        match act (ruleSigArr.getD r "?") ks with
        | .ok s => .ok s
        | .unknown sig => .error sig
  def semList : List (PT LVal) → Except String (List Sem)
    | [] => .ok []
    | k :: ks =>
      match sem k with
      | .error e => .error e
      | .ok s => match semList ks with
        | .error e => .error e
        | .ok ss => .ok (s :: ss)
end

/-! ### canonical dump -/

def hexDigit (n : Nat) : Char := if n < 10 then Char.ofNat (48 + n) else Char.ofNat (87 + n)
def hexOf (s : Bytes) : String := String.ofList (s.flatMap fun b => [hexDigit (b.toNat / 16), hexDigit (b.toNat % 16)])

def insertField (f : String × String) : List (String × String) → List (String × String)
  | [] => [f]
  | g :: rest => if f.1 < g.1 then f :: g :: rest else g :: insertField f rest

mutual
  def dump : Ast → String
    | .nil => "_"
    | .str s => "s:" ++ hexOf s
    | .int n => toString n
    | .bool b => if b then "T" else "F"
    | .list xs => "[" ++ " ".intercalate (dumpList xs) ++ "]"
    | .obj t fs =>
      let fields := (dumpFields fs).foldl (fun acc f => insertField f acc) []
      "(" ++ t ++ String.join (fields.map fun (k, v) => " " ++ k ++ "=" ++ v) ++ ")"
  def dumpList : List Ast → List String
    | [] => []
    | x :: xs => dump x :: dumpList xs
  def dumpFields : List (String × Ast) → List (String × String)
    | [] => []
    | (k, v) :: rest => if v.isZero then dumpFields rest else (k, dump v) :: dumpFields rest
end

end Gojq.Parse

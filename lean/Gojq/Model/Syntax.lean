/-
  jq abstract syntax, mirroring query.go (DESIGN §3.2).  A `*gojq.Query` dumped by the
  harness (harness/jqast) is a term of `Query` without interpretation: the dumper only
  makes the Go struct's implicit case split explicit (Term / binary operator / `as` binding).
-/
import Gojq.Model.Json
namespace Gojq

/-- binary operators of operator.go (`Operator`), update operators included -/
inductive Op where
  | pipe | comma | add | sub | mul | div | mod | eq | ne | gt | lt | ge | le
  | and | or | alt | assign | modify | updAdd | updSub | updMul | updDiv | updMod | updAlt
  deriving Repr, DecidableEq, Inhabited

mutual
  /-- `*Query`: leading function definitions, then a term, a binary operator application,
      or a binding `src as p₁ ?// p₂ … | body` (OpPipe with Patterns) -/
  inductive Query where
    | term (defs : List FuncDef) (t : Term)
    | binop (defs : List FuncDef) (op : Op) (l r : Query)
    | bind (defs : List FuncDef) (src : Query) (pats : List Pattern) (body : Query)
  /-- `*FuncDef`; a parameter starting with `$` is a value parameter -/
  inductive FuncDef where
    | mk (name : String) (params : List String) (body : Query)
  /-- `*Term` = a core form followed by its `SuffixList` -/
  inductive Term where
    | mk (core : TermCore) (suffixes : List Suffix)
  inductive TermCore where
    | identity | recurse | null | true_ | false_
    | index (i : Index)
    | func (name : String) (args : List Query)
    | object (kvs : List ObjKV)
    | array (q : Option Query)
    | number (text : String)
    | unary (op : Op) (t : Term)
    | format (fmt : String) (s : Option Str)
    | str (s : Str)
    | if_ (cond thn : Query) (elifs : List (Query × Query)) (els : Option Query)
    | try_ (body : Query) (catch_ : Option Query)
    | reduce (src : Query) (pat : Pattern) (start update : Query)
    | foreach (src : Query) (pat : Pattern) (start update : Query) (extract : Option Query)
    | label (name : String) (body : Query)
    | break_ (name : String)
    | query (q : Query)
  inductive Suffix where
    | index (i : Index) | iter | optional
  /-- `*Index`: `.name`, `."str"`, `.[q]`, `.[a:b]` -/
  inductive Index where
    | name (n : Bytes)
    | str (s : Str)
    | at (q : Query)
    | slice (start end_ : Option Query)
  /-- `*String`: literal bytes, or an interpolation whose parts are string terms or queries -/
  inductive Str where
    | lit (text : Bytes)
    | interp (parts : List Query)
  inductive ObjKV where
    | mk (key : ObjKey) (val : Option Query)
  inductive ObjKey where
    | name (k : Bytes)          -- `{foo: …}` / `{foo}`
    | var (name : String)       -- `{$x}` / `{$x: …}`? (Key starting with `$`)
    | str (s : Str)             -- `{"foo": …}` / `{"a\(.)": …}`
    | query (q : Query)         -- `{(q): …}`
  inductive Pattern where
    | var (name : String)
    | array (ps : List Pattern)
    | object (kvs : List PatKV)
  inductive PatKV where
    | mk (key : ObjKey) (val : Option Pattern)
end

instance : Inhabited Query := ⟨.term [] (.mk .identity [])⟩
instance : Inhabited Term := ⟨.mk .identity []⟩
instance : Inhabited Pattern := ⟨.var "$_"⟩

def Query.defs : Query → List FuncDef
  | .term d _ => d | .binop d _ _ _ => d | .bind d _ _ _ => d

def Query.withDefs (ds : List FuncDef) : Query → Query
  | .term _ t => .term ds t | .binop _ o l r => .binop ds o l r | .bind _ s p b => .bind ds s p b

def Query.ofTerm (c : TermCore) : Query := .term [] (.mk c [])
def Query.call (name : String) (args : List Query := []) : Query := .ofTerm (.func name args)
def Query.id : Query := .ofTerm .identity

def FuncDef.name : FuncDef → String | .mk n _ _ => n
def FuncDef.params : FuncDef → List String | .mk _ p _ => p
def FuncDef.body : FuncDef → Query | .mk _ _ b => b

end Gojq

/-
  C05, last clause — "nothing depends on Go map iteration order".

  A `range` over a Go map delivers the entries in an unspecified order that differs from run to
  run (and between two traversals of one map).  The shared model holds an object as its
  association list with strictly increasing keys (`kvSorted`); here every function of /repo that
  TRAVERSES a map is transliterated with the traversal order as an explicit extra argument
  `enum`: ANY list that is a rearrangement (`List.Perm`) of the members.  Below the traversed
  level the transliterations call the shared model (`cmp`, `contains`, `mergeVal`, the encoders
  …) or an arbitrary body function: each theorem of Props/C05Maps.lean is quantified over the
  enumeration of the traversal it is about AND holds for every body, so the enumerations of
  nested traversals (one per dynamic `range` statement, all independent) are covered level by
  level — a nested call is a function of its arguments by the same theorem one level down.

  The list of sites is not hand-kept: `verifgen maprange` extracts it from the source on every
  run (Generated/MapRange.lean) and `C05.facts_covered` checks it against this file's coverage.

  Sites (file: function — class):
    func.go: keys — collect, sort.Strings                                          `keysGo`
      (used by funcKeys, values, compare.go's object case, to_entries, has…)      `valuesGo`, `compareObjectsGo`
    execute.go: env.Next, opiter on an object — collect, sort.Slice by key          `opiterGo`
    encoder.go / cli/encoder.go: encodeObject — collect, sort.Slice by key           `encodeObjectGo`, `cliEncodeObjectGo`
    compiler.go: funcBuiltins — three maps collected into one slice, sort.Slice
      by (name, arity)                                                               `builtinsGo`
    func.go: add; operator.go: funcOpAdd; func.go: updateObject; operator.go:
      deepMergeObjects (`maps.Clone` / `maps.Copy`) — store at the range key         `copyGo`, `cloneGo`, `addObjectsGo`, `opAddObjectsGo`, `updateObjectGo`
    operator.go: deepMergeObjects — `m[k] = g(m[k], v)` at the range key             `foldAtKey`, `deepMergeObjectsGo`
    cli/marshaler.go: normalizeNumbers; cli/inputs.go: normalizeYAMLNumbers,
      func.go: deleteEmpty — `u[k] = f(v)` / `delete(v, k)` at the range key         `mapValuesGo`, `sweepGo`
    func.go: funcContains — early exit `return false`, a conjunction                 `containsObjectsGo`
    cli/cli.go: runInternal, four maps of named arguments — pairs appended in
      traversal order, early `return err`                                            `argLoopGo`

  Core Lean only.
-/
import Gojq.Model.Native.Ops
import Gojq.Model.Sort
namespace Gojq.MapEnum
open Gojq

/-! ### sorting (one concrete algorithm; the theorems hold for every correct one) -/

/-- insert into a list that is increasing in `key` (bytewise, Go's `<` on strings) -/
def insertOn {α : Type} (key : α → Bytes) (x : α) : List α → List α
  | [] => [x]
  | y :: ys =>
    match Bytes.cmp (key x) (key y) with
    | .gt => y :: insertOn key x ys
    | _ => x :: y :: ys

/-- insertion sort by `key` -/
def sortOn {α : Type} (key : α → Bytes) (l : List α) : List α := l.foldr (insertOn key) []

/-! ### class S: collect, then sort -/

/-- func.go `keys(v)`: `for k := range v { w[i] = k; i++ }; sort.Strings(w)`.
    `enum` = the entries in the order the traversal delivers them. -/
def keysGo (sortStrings : List Bytes → List Bytes) (enum : List (Bytes × JV)) : List Bytes :=
  sortStrings (enum.map (·.1))

/-- func.go `values(v)`, object case: `for i, k := range keys(v) { vs[i] = v[k] }` -/
def valuesGo (sortStrings : List Bytes → List Bytes) (enum : List (Bytes × JV)) : List JV :=
  (keysGo sortStrings enum).map fun k => (kvLookup k enum).getD .null

/-- execute.go `opiter`, object case: `xs[i] = pathValue{path: k, value: v}` in traversal order,
    `sort.Slice(xs, path_i < path_j)`; the members are then emitted from `xs[0]` on -/
def opiterGo (sortSlice : List (Bytes × JV) → List (Bytes × JV)) (enum : List (Bytes × JV)) : List (Bytes × JV) :=
  sortSlice enum

/-- encoder.go `encodeObject`: `kvs[i] = keyVal{k, v}` in traversal order, `sort.Slice` by key,
    then the members are written in slice order (what `encodeValue` does with a member list) -/
def encodeObjectGo (sortSlice : List (Bytes × JV) → List (Bytes × JV)) (enum : List (Bytes × JV)) : Bytes :=
  Encode.encodeValue (.obj (sortSlice enum))

/-- cli/encoder.go `encodeObject`: the same with indentation and colours, on the chunked buffer -/
def cliEncodeObjectGo (sortSlice : List (Bytes × JV) → List (Bytes × JV)) (o : Encode.Cli.Opts) (depth : Int)
    (enum : List (Bytes × JV)) (b : Encode.Cli.Buf) : Encode.Cli.Buf :=
  Encode.Cli.enc o depth (.obj (sortSlice enum)) b

/-- `Compare(lk, rk)` on two arrays of strings -/
def cmpStrings : List Bytes → List Bytes → Ordering
  | [], [] => .eq
  | [], _ :: _ => .lt
  | _ :: _, [] => .gt
  | k :: xs, l :: ys =>
    match Bytes.cmp k l with
    | .eq => cmpStrings xs ys
    | o => o

/-- `for _, k := range lk { if cmp := Compare(l[k], r[k]); cmp != 0 { return cmp } }; return 0` -/
def firstNonEq (cmpV : JV → JV → Ordering) (l r : List (Bytes × JV)) : List Bytes → Ordering
  | [] => .eq
  | k :: ks =>
    match cmpV ((kvLookup k l).getD .null) ((kvLookup k r).getD .null) with
    | .eq => firstNonEq cmpV l r ks
    | o => o

/-- compare.go, the object callback: `lk, rk := funcKeys(l), funcKeys(r)`; `Compare(lk, rk)`; then the
    values key by key.  The two traversals are the ones inside `keys`; `cmpV` is the comparison
    of the member values (the recursive `Compare`). -/
def compareObjectsGo (sortStrings : List Bytes → List Bytes) (cmpV : JV → JV → Ordering)
    (lenum renum : List (Bytes × JV)) : Ordering :=
  let lk := keysGo sortStrings lenum
  let rk := keysGo sortStrings renum
  match cmpStrings lk rk with
  | .eq => firstNonEq cmpV lenum renum lk
  | o => o

/-! #### `builtins`: three maps into one slice, sorted by (name, arity) -/

/-- `name[0] != '_'` -/
def publicName (name : Bytes) : Bool := name.head? != some 95

/-- `for i, cnt := 0, fn.argcount; cnt > 0; i, cnt = i+1, cnt>>1 { if cnt&1 > 0 { … i … } }`:
    the positions of the one bits of the arity mask (fuel: a mask below 2^fuel) -/
def maskArities : Nat → Nat → Nat → List Nat
  | 0, _, _ => []
  | fuel + 1, i, cnt => if cnt = 0 then [] else (if cnt % 2 = 1 then [i] else []) ++ maskArities fuel (i + 1) (cnt / 2)

/-- first loop: `for _, fds := range builtinFuncDefs { for _, fd := range fds { … } }`;
    an entry is (key, the (name, number of parameters) of each definition stored under it) -/
def collectDefs (enum : List (Bytes × List (Bytes × Nat))) : List (Bytes × Nat) :=
  enum.flatMap fun e => e.2.filter fun fd => publicName fd.1

/-- second and third loop: `for name, fn := range internalFuncs` / `c.customFuncs`; an entry is (name, arity mask) -/
def collectFuncs (enum : List (Bytes × Nat)) : List (Bytes × Nat) :=
  enum.flatMap fun e => if publicName e.1 then (maskArities 64 0 e.2).map fun i => (e.1, i) else []

/-- the comparison of `sort.Slice`: `xs[i].name < xs[j].name || xs[i].name == xs[j].name && xs[i].arity < xs[j].arity` -/
def builtinLess (a b : Bytes × Nat) : Bool := Bytes.lt a.1 b.1 || (a.1 == b.1 && decide (a.2 < b.2))

/-- compiler.go `funcBuiltins`: the slice handed to the final loop `ys[i] = x.name + "/" + itoa(x.arity)`
    (a function of the slice, element by element) -/
def builtinsGo (sortSlice : List (Bytes × Nat) → List (Bytes × Nat))
    (defs : List (Bytes × List (Bytes × Nat))) (internal custom : List (Bytes × Nat)) : List (Bytes × Nat) :=
  sortSlice (collectDefs defs ++ collectFuncs internal ++ collectFuncs custom)

/-! ### class C: stores at the range key -/

/-- `for k, v := range src { m[k] = g(k, m[k], v) }` — every iteration reads and writes the
    destination at its own key only.  `m` is the destination map as the model holds it. -/
def foldAtKey (g : Bytes → Option JV → JV → JV) (m : List (Bytes × JV)) (enum : List (Bytes × JV)) : List (Bytes × JV) :=
  enum.foldl (fun m kv => kvInsert kv.1 (g kv.1 (kvLookup kv.1 m) kv.2) m) m

/-- `maps.Copy(m, src)`: `for k, v := range src { m[k] = v }` -/
def copyGo (m : List (Bytes × JV)) (enum : List (Bytes × JV)) : List (Bytes × JV) :=
  foldAtKey (fun _ _ v => v) m enum

/-- `maps.Clone(src)` -/
def cloneGo (enum : List (Bytes × JV)) : List (Bytes × JV) := copyGo [] enum

/-- operator.go `funcOpAdd`, object case with both operands non-empty:
    `m := make(…); maps.Copy(m, l); maps.Copy(m, r)` -/
def opAddObjectsGo (lenum renum : List (Bytes × JV)) : List (Bytes × JV) :=
  copyGo (copyGo [] lenum) renum

/-- func.go `add`, a run of objects: `v = maps.Clone(x)` for the first, `maps.Copy(w, x)` for the others;
    each element of `enums` is the traversal order of one object of the input array -/
def addObjectsGo : List (List (Bytes × JV)) → List (Bytes × JV)
  | [] => []
  | first :: rest => rest.foldl copyGo (cloneGo first)

/-- func.go `updateObject`, copying branch: `w := a.makeObject(…); maps.Copy(w, v); w[k] = u` -/
def updateObjectGo (enum : List (Bytes × JV)) (k : Bytes) (u : JV) : List (Bytes × JV) :=
  kvInsert k u (copyGo [] enum)

/-- operator.go `deepMergeObjects(l, r)`: `maps.Copy(m, l)`, then
    `for k, v := range r { if mk is an object and v is an object { v = deepMergeObjects(mk, w) }; m[k] = v }`
    with `mergeVal` (shared model) for the body; two traversals, two enumerations -/
def deepMergeObjectsGo (lenum renum : List (Bytes × JV)) : List (Bytes × JV) :=
  foldAtKey (fun _ mk v => mergeVal mk v) (copyGo [] lenum) renum

/-- cli/marshaler.go `normalizeNumbers`, object case: `u := make(…); for k, v := range v { u[k] = f(v) }`
    (`f` = the recursive call), and cli/inputs.go `normalizeYAMLNumbers`: `v[k] = f(x)` into the
    traversed map itself (same keys, so the same map as a value) -/
def mapValuesGo (f : JV → JV) (enum : List (Bytes × JV)) : List (Bytes × JV) :=
  foldAtKey (fun _ _ v => f v) [] enum

/-- func.go `deleteEmpty`, object case:
    `for k, w := range v { if w == struct{}{} { delete(v, k) } else { v[k] = deleteEmpty(w, a) } }`
    on the traversed map itself: what is left is built key by key.  `f w = none`: `w` is the
    marker `struct{}{}`; `some w'`: the swept member. -/
def sweepGo (f : JV → Option JV) (enum : List (Bytes × JV)) : List (Bytes × JV) :=
  enum.foldl (fun m kv => match f kv.2 with
    | some w => kvInsert kv.1 w m
    | none => m) []

/-! ### class E: early exit -/

/-- `for _, x := range xs { if !p(x) { return false } }; return true` -/
def allExit {α : Type} (p : α → Bool) : List α → Bool
  | [] => true
  | x :: xs => if p x then allExit p xs else false

/-- func.go `funcContains`, object callback:
    `if len(l) < len(r) { return false }; for k, r := range r { if l, ok := l[k]; !ok || body(l, r) != true { return false } }; return true`.
    `l` is only indexed (`l[k]`), `renum` is the traversal; `body` = the recursive `funcContains`
    (`some true` = the Go value `true`). -/
def containsObjectsGo (body : JV → JV → Option Bool) (l renum : List (Bytes × JV)) : Bool :=
  if l.length < renum.length then false
  else allExit (fun kv => match kvLookup kv.1 l with
    | none => false
    | some lv => body lv kv.2 == some true) renum

/-! ### cli.runInternal: the four maps of named arguments -/

/-- one of the loops `for k, v := range opts.ArgJSON { val, err := conv(k, v); if err { return err };
    cli.argnames = append(cli.argnames, "$"+k); cli.argvalues = append(cli.argvalues, val) }`
    (`--arg`: `conv` never fails).  `acc` = the (name, value) pairs appended so far. -/
def argLoopGo {ε : Type} (conv : Bytes → Bytes → Except ε JV) (acc : List (Bytes × JV)) :
    List (Bytes × Bytes) → Except ε (List (Bytes × JV))
  | [] => .ok acc
  | (k, v) :: rest =>
    match conv k v with
    | .error e => .error e
    | .ok x => argLoopGo conv (acc ++ [(k, x)]) rest

/-- `named := make(map…); for i, name := range cli.argnames { named[name[1:]] = cli.argvalues[i] }`
    (a loop over a slice): `$ARGS.named`, and — names being distinct — the binding of each `$name` -/
def namedGo (pairs : List (Bytes × JV)) : List (Bytes × JV) :=
  pairs.foldl (fun m kv => kvInsert kv.1 kv.2 m) []

end Gojq.MapEnum

/-
  cli/error.go — conversion of an error offset into (line number, excerpt, caret column):
  `indexNewline`, `stringScanner.next`, `getLineByOffset`, `trimLastInvalidRune`,
  `formatLineInfo`, and the three `Error()` methods that call them
  (`queryParseError`, `jsonParseError`, `yamlParseError`), transliterated over `Bytes`.

  Parameter: `w : Nat → Nat`, the display width of a rune. The code calls
  `runewidth.StringWidth`, which sums, per grapheme cluster, the width of the first rune of
  non-zero width; on the alphabet used by the correspondence stream that equals `Σ w` over the
  runes (asserted by the harness on every case).
-/
import Gojq.Model.Utf8
namespace Gojq.Cli
open Gojq

def LF : UInt8 := 10
def CR : UInt8 := 13

/-- `strings.IndexByte` (`none` = -1) -/
def indexByte (c : UInt8) : Bytes → Option Nat
  | [] => none
  | b :: rest => if b == c then some 0 else (indexByte c rest).map (· + 1)

/-- `indexNewline`: first `\n`, then a `\r` before it wins. -/
def indexNewline (str : Bytes) : Option Nat :=
  let i := indexByte LF str
  let str' := match i with
    | some i => str.take i
    | none => str
  match indexByte CR str' with
  | some j => some j
  | none => i

/-- `strings.HasPrefix(s, "\r\n")` -/
def hasPrefixCRLF : Bytes → Bool
  | a :: b :: _ => a == CR && b == LF
  | _ => false

/-- `(*stringScanner).next` on `rest = ss.str[ss.offset:]`: `none` when `ok` is false, else the
    line and the number of bytes `ss.offset` advances by. -/
def scanNext (rest : Bytes) : Option (Bytes × Nat) :=
  match rest with
  | [] => none
  | _ :: _ =>
    match indexNewline rest with
    | none => some (rest, rest.length)
    | some i => some (rest.take i, (if hasPrefixCRLF (rest.drop i) then i + 1 else i) + 1)

/-- the `for` loop of `getLineByOffset`. `rest = ss.str[ss.offset:]`, `start = ss.offset`.
    Returns `(linestr, line, offset)` as they stand after the loop. When `next` reports `!ok`
    the Go code subtracts the zero value of `start`, i.e. leaves `offset` absolute.
    Fuel: one unit per line; `str.length + 1` always suffices (every step consumes ≥ 1 byte). -/
def lineLoop : Nat → Bytes → Nat → Int → Nat → Bytes → Bytes × Nat × Int
  | 0, _, _, offset, line, linestr => (linestr, line, offset)
  | fuel + 1, rest, start, offset, line, linestr =>
    match scanNext rest with
    | none => (linestr, line, offset)
    | some (str, adv) =>
      if ((start + adv : Nat) : Int) ≥ offset then (str, line + 1, offset - (start : Int))
      else lineLoop fuel (rest.drop adv) (start + adv) offset (line + 1) str

/-- `utf8.RuneStart` -/
def runeStart (b : UInt8) : Bool := !Utf8.isCont b

/-- the `for` loop of `trimLastInvalidRune`: `steps` iterations remain (`i > len(s)-UTFMax`
    allows three), the loop variable is `i = i1 - 1` (`i1 = 0` encodes `i < 0`). -/
def trimLoop (s : Bytes) : Nat → Nat → Bytes
  | 0, _ => s
  | _, 0 => s
  | steps + 1, i + 1 =>
    match s[i]? with
    | none => s
    | some b =>
      if b.toNat < 0x80 then s.take (i + 1)
      else if runeStart b then
        if (Utf8.decodeRune (s.drop i)).1 == Utf8.runeError && (Utf8.decodeRune (s.drop i)).2.1 ≤ 1 then s.take i else s
      else trimLoop s steps i

def trimLastInvalidRune (s : Bytes) : Bytes := trimLoop s 3 s.length

/-- `Σ w` over the runes of `s` (`for range` decoding: an invalid byte is one U+FFFD) -/
def strWidth (w : Nat → Nat) (s : Bytes) : Nat := ((Utf8.runes s).map w).sum

/-- the part of `getLineByOffset` after the loop, up to the caret's byte position:
    clamp, 48/64 window, rune-boundary adjustment. Returns (excerpt, caret byte index). -/
def excerpt (linestr : Bytes) (offset : Int) : Bytes × Nat :=
  let o : Nat := min (max (offset - 1) 0).toNat linestr.length
  let skip := if o > 48 then (trimLastInvalidRune (linestr.take (o - 48))).length else 0
  let linestr := linestr.drop skip
  let o := o - skip
  let linestr := trimLastInvalidRune (linestr.take (min 64 linestr.length))
  let o := if o < linestr.length then (trimLastInvalidRune (linestr.take o)).length else linestr.length
  (linestr, o)

/-- `getLineByOffset(str, offset)` with the caret's byte index exposed -/
def getLineByOffset' (str : Bytes) (offset : Int) : Bytes × Nat × Nat :=
  let (linestr, line, off) := lineLoop (str.length + 1) str 0 offset 0 []
  let (ex, k) := excerpt linestr off
  (ex, line, k)

/-- `getLineByOffset(str, offset) = (linestr, line, column)` -/
def getLineByOffset (w : Nat → Nat) (str : Bytes) (offset : Int) : Bytes × Nat × Nat :=
  let (ex, line, k) := getLineByOffset' str offset
  (ex, line, strWidth w (ex.take k))

def spaces (n : Nat) : Bytes := List.replicate n 32

/-- `fmt.Sprintf("%*c", width, '^')`: right-aligned in `width` columns -/
def padCaret (width : Nat) : Bytes := spaces (width - 1) ++ [94]

/-- `formatLineInfo`: `"    %s | %s\n    %*c"` -/
def formatLineInfo (linestr : Bytes) (line column : Nat) : Bytes :=
  let l := Bytes.ofString (toString line)
  spaces 4 ++ l ++ [32, 124, 32] ++ linestr ++ [LF] ++ spaces 4 ++ padCaret (column + l.length + 4)

/-- the position part of an error message: which of the two layouts is printed, the line number,
    the excerpt and the caret column (relative to the excerpt's first column) -/
structure Report where
  multi : Bool
  line : Nat
  linestr : Bytes
  column : Nat
deriving DecidableEq, Repr

/-- what `encoding/json` handed over -/
inductive JsonErr
  | syntax (offset : Int)   -- *json.SyntaxError, Offset already made relative to `contents`
  | unexpectedEOF
  | other
deriving DecidableEq, Repr

/-- `jsonParseError.Error()` -/
def jsonReport (w : Nat → Nat) (contents : Bytes) (errLine : Nat) (e : JsonErr) : Report :=
  let offset : Int := match e with
    | .unexpectedEOF => contents.length + 1
    | .syntax o => o
    | .other => 0
  let (linestr, line, column) := getLineByOffset w contents offset
  let line := line + errLine
  { multi := line > 1, line := line, linestr := linestr, column := column }

def containsNewline (s : Bytes) : Bool := s.contains LF || s.contains CR

/-- `queryParseError.Error()`; `perr = some (Offset, |Token|)` when the error is a `*gojq.ParseError` -/
def queryReport (w : Nat → Nat) (isArg : Bool) (contents : Bytes) (perr : Option (Int × Nat)) : Report :=
  let offset : Int := match perr with
    | some (off, tl) => off - tl + 1
    | none => 0
  let (linestr, line, column) := getLineByOffset w contents offset
  { multi := !isArg || containsNewline contents, line := line, linestr := linestr, column := column }

/-- the loop `for i := range contents { if index--; index < 0 { offset = i; break } }` of
    `yamlParseError.Error`: byte offset of the `index`-th character (an invalid byte is one
    character), `len(contents)` when there are fewer. `pos` = bytes already passed. -/
def charToByte : Nat → Bytes → Nat → Nat → Nat
  | 0, s, _, pos => pos + s.length
  | _, [], _, pos => pos
  | _ + 1, _ :: _, 0, pos => pos
  | fuel + 1, s@(_ :: _), index + 1, pos =>
    let n := max (Utf8.decodeRune s).2.1 1
    charToByte fuel (s.drop n) index (pos + n)

/-- `yamlParseError.Error()` for the CHARACTER index go-yaml reported (`none`: the error carries no
    index and the message is printed without any position) -/
def yamlReport (w : Nat → Nat) (contents : Bytes) (index : Int) : Option Report :=
  if index < 0 then none else
  let offset := charToByte contents.length contents index.toNat 0
  let (linestr, line, column) := getLineByOffset w contents ((offset : Int) + 1)
  some { multi := true, line := line, linestr := linestr, column := column }

/-- the text printed for a report after the `invalid …: name` header, up to and including the caret -/
def Report.render (r : Report) : Bytes :=
  if r.multi then Bytes.ofString (":" ++ toString r.line) ++ [LF] ++ formatLineInfo r.linestr r.line r.column
  else [LF] ++ spaces 4 ++ r.linestr ++ [LF] ++ spaces 4 ++ padCaret (r.column + 1)

end Gojq.Cli

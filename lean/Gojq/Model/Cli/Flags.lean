/-
  C15 / C16 — cli/flags.go `parseFlags` over the option struct of cli/cli.go (`flagopts`),
  transliterated over argument lists.  Arguments are lists of characters (flag names are
  ASCII; Go indexes bytes, which only differs inside values, where nothing is inspected).

  The reflection over struct tags becomes the table `table` (field order of `flagopts`); the
  `for i` loop with its index arithmetic (`i--`, `args[i] = …`, `goto`) becomes: classify one
  argument (`classify`), then apply its flags and consume the arguments they need (`parse`).
  Unmodelled: an inline value on a positional flag (`--args=x`, which re-reads `x` as an
  argument) — outcome `unmodelled`.
  Core Lean only.
-/
namespace Gojq.Flags

abbrev Str := List Char

/-- `reflect.Kind` of the field, with the `positional` tag folded in -/
inductive Kind where
  | bool          -- bool
  | int           -- *int
  | list          -- []string
  | positional    -- []any with the `positional` tag
  | map           -- map[string]string
  deriving Repr, DecidableEq, Inhabited

structure Spec where
  long : Str
  short : Option Char
  kind : Kind
  deriving Repr, DecidableEq, Inhabited

/-- `flagopts`, field by field -/
def table : List Spec := [
  ⟨"raw-output".toList, some 'r', .bool⟩,
  ⟨"raw-output0".toList, none, .bool⟩,
  ⟨"join-output".toList, some 'j', .bool⟩,
  ⟨"compact-output".toList, some 'c', .bool⟩,
  ⟨"indent".toList, none, .int⟩,
  ⟨"tab".toList, none, .bool⟩,
  ⟨"yaml-output".toList, none, .bool⟩,
  ⟨"color-output".toList, some 'C', .bool⟩,
  ⟨"monochrome-output".toList, some 'M', .bool⟩,
  ⟨"null-input".toList, some 'n', .bool⟩,
  ⟨"raw-input".toList, some 'R', .bool⟩,
  ⟨"stream".toList, none, .bool⟩,
  ⟨"yaml-input".toList, none, .bool⟩,
  ⟨"slurp".toList, some 's', .bool⟩,
  ⟨"from-file".toList, some 'f', .bool⟩,
  ⟨"library-path".toList, some 'L', .list⟩,
  ⟨"arg".toList, none, .map⟩,
  ⟨"argjson".toList, none, .map⟩,
  ⟨"slurpfile".toList, none, .map⟩,
  ⟨"rawfile".toList, none, .map⟩,
  ⟨"args".toList, none, .positional⟩,
  ⟨"jsonargs".toList, none, .positional⟩,
  ⟨"exit-status".toList, some 'e', .bool⟩,
  ⟨"version".toList, some 'v', .bool⟩,
  ⟨"help".toList, some 'h', .bool⟩]

def lookupLong (n : Str) : Option Spec := table.find? (fun s => s.long == n)
def lookupShort (c : Char) : Option Spec := table.find? (fun s => s.short == some c)

/-- what `parseFlags` leaves in the option struct and returns -/
structure Parsed where
  bools : List Str := []                  -- long names of the boolean flags set, in order
  indent : Option Int := none
  libs : List Str := []
  maps : List (Str × Str × Str) := []     -- (flag, name, value): the bindings kept, in order
  args : List (Option Str) := []          -- opts.Args  (`none` = nil padding)
  jsonargs : List (Option Str) := []      -- opts.JSONArgs
  rest : List Str := []                   -- the returned free arguments
  deriving Repr, DecidableEq, Inhabited

inductive Err where
  | unknown (a : Str)       -- unknown flag `a'
  | boolArg (a : Str)       -- boolean flag `a' cannot have an argument
  | expected (a : Str)      -- expected argument for flag `a'
  | expected2 (a : Str)     -- expected 2 arguments for flag `a'
  | invalid (a : Str)       -- invalid argument for flag `a': …
  | unmodelled
  deriving Repr, DecidableEq, Inhabited

structure PS where
  out : Parsed := {}
  mapKeys : List Str := []            -- `mapKeys`: names bound so far, by any of the map flags
  positional : Option Bool := none    -- `positionalVal`: none = invalid, false = Args, true = JSONArgs
  optsDone : Bool := false
  deriving Repr, DecidableEq, Inhabited

def isLetter (c : Char) : Bool := ('A' ≤ c && c ≤ 'Z') || ('a' ≤ c && c ≤ 'z')

/-- the check loop over a short bundle: `true` = `skip` (the argument is not a flag) -/
def skipBundle : List Char → Bool
  | [] => false
  | c :: cs =>
    match lookupShort c with
    | some sp => if sp.kind == .bool then skipBundle cs else false
    | none => if isLetter c then skipBundle cs else true

/-- the value glued to a short flag: `-Ldir`, `-L=dir` -/
def inlineOf : List Char → Option Str
  | [] => none
  | '=' :: v => some v
  | v => some v

inductive Action where
  | nonflag
  | dashdash
  /-- boolean flags to set, then possibly one flag that takes arguments: its spec, the name
      used in messages, and a value glued to it -/
  | flags (bools : List Spec) (last : Option (Spec × Str × Option Str))
  | err (e : Err)
  deriving Repr, Inhabited

/-- label `L`: the letters of a bundle one by one -/
def bundle : List Char → List Spec → Action
  | [], acc => .flags acc.reverse none
  | c :: cs, acc =>
    match lookupShort c with
    | none => .err (.unknown [c])
    | some sp =>
      if sp.kind == .bool then bundle cs (sp :: acc)
      else .flags acc.reverse (some (sp, ['-', c], inlineOf cs))

/-- split at the first '=' -/
def splitEq : List Char → Option (Str × Str)
  | [] => none
  | c :: cs =>
    if c = '=' then some ([], cs)
    else (splitEq cs).map fun (a, b) => (c :: a, b)

def single (sp : Spec) (name : Str) (inl : Option Str) : Action :=
  if sp.kind == .bool then .flags [sp] none else .flags [] (some (sp, name, inl))

def longAction (name whole : Str) : Action :=
  match lookupLong name with
  | some sp => single sp ('-' :: '-' :: name) none
  | none =>
    match splitEq name with
    | some (nm, v) =>
      match lookupLong nm with
      | some sp =>
        if sp.kind == .bool then .err (.boolArg ('-' :: '-' :: nm)) else single sp ('-' :: '-' :: nm) (some v)
      | none => .err (.unknown whole)
    | none => .err (.unknown whole)

/-- the `switch` at the top of the loop body -/
def classify (optsDone : Bool) (a : Str) : Action :=
  if optsDone then .nonflag
  else
    match a with
    | ['-', '-'] => .dashdash
    | '-' :: '-' :: name => longAction name a
    | '-' :: c :: cs => if skipBundle (c :: cs) then .nonflag else bundle (c :: cs) []
    | _ => .nonflag

/-- `strconv.Atoi`: optional sign, decimal digits, int64 range -/
def digitsVal : List Char → Nat → Option Nat
  | [], acc => some acc
  | c :: cs, acc => if '0' ≤ c ∧ c ≤ '9' then digitsVal cs (acc * 10 + (c.toNat - '0'.toNat)) else none

def atoi (s : Str) : Option Int :=
  let (neg, ds) : Bool × List Char := match s with
    | '-' :: ds => (true, ds)
    | '+' :: ds => (false, ds)
    | ds => (false, ds)
  if ds.isEmpty then none else
    match digitsVal ds 0 with
    | none => none
    | some n =>
      let z : Int := if neg then -(n : Int) else n
      if -9223372036854775808 ≤ z ∧ z ≤ 9223372036854775807 then some z else none

/-- a free argument: positional once a positional flag is active and the query has been seen -/
def addFree (st : PS) (a : Str) : PS :=
  match st.positional with
  | some false =>
    if st.out.rest.isEmpty then { st with out := { st.out with rest := st.out.rest ++ [a] } }
    else { st with out := { st.out with args := st.out.args ++ [some a] } }
  | some true =>
    if st.out.rest.isEmpty then { st with out := { st.out with rest := st.out.rest ++ [a] } }
    else { st with out := { st.out with jsonargs := st.out.jsonargs ++ [some a] } }
  | none => { st with out := { st.out with rest := st.out.rest ++ [a] } }

def padTo (n : Nat) (l : List (Option Str)) : List (Option Str) :=
  l ++ List.replicate (n - l.length) none

/-- `--args` / `--jsonargs`: pad the newly selected slice with nils up to the length of the
    one selected so far, then select it -/
def switchPositional (st : PS) (json : Bool) : PS :=
  let oldLen := match st.positional with
    | some false => st.out.args.length
    | some true => st.out.jsonargs.length
    | none => 0
  if json then { st with out := { st.out with jsonargs := padTo oldLen st.out.jsonargs }, positional := some true }
  else { st with out := { st.out with args := padTo oldLen st.out.args }, positional := some false }

/-- a map flag: the first binding of a name wins, across all map flags -/
def bind (st : PS) (flag name value : Str) : PS :=
  if st.mapKeys.contains name then st
  else { st with mapKeys := name :: st.mapKeys, out := { st.out with maps := st.out.maps ++ [(flag, name, value)] } }

def setBool (st : PS) (sp : Spec) : PS := { st with out := { st.out with bools := st.out.bools ++ [sp.long] } }

/-- parseFlags -/
def parse : PS → List Str → Except Err Parsed
  | st, [] => .ok st.out
  | st, a :: as =>
    match classify st.optsDone a with
    | .nonflag => parse (addFree st a) as
    | .dashdash => parse { st with optsDone := true } as
    | .err e => .error e
    | .flags bs last =>
      let st1 := bs.foldl setBool st
      match last with
      | none => parse st1 as
      | some (sp, name, inl) =>
        match sp.kind with
        | .bool => parse st1 as
        | .positional =>
          match inl with
          | some _ => .error .unmodelled
          | none => parse (switchPositional st1 (sp.long == "jsonargs".toList)) as
        | .int =>
          match inl with
          | some v =>
            match atoi v with
            | some n => parse { st1 with out := { st1.out with indent := some n } } as
            | none => .error (.invalid name)
          | none =>
            match as with
            | v :: as' =>
              match atoi v with
              | some n => parse { st1 with out := { st1.out with indent := some n } } as'
              | none => .error (.invalid name)
            | [] => .error (.expected name)
        | .list =>
          match inl with
          | some v => parse { st1 with out := { st1.out with libs := st1.out.libs ++ [v] } } as
          | none =>
            match as with
            | v :: as' => parse { st1 with out := { st1.out with libs := st1.out.libs ++ [v] } } as'
            | [] => .error (.expected name)
        | .map =>
          match inl with
          | some n =>
            match as with
            | v :: as' => parse (bind st1 sp.long n v) as'
            | [] => .error (.expected2 name)
          | none =>
            match as with
            | n :: v :: as' => parse (bind st1 sp.long n v) as'
            | _ => .error (.expected2 name)

def parseFlags (args : List Str) : Except Err Parsed := parse {} args

end Gojq.Flags

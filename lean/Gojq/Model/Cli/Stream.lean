/-
  C16 — cli/stream.go (`jsonStream.next`) transliterated as a state machine over the token
  list a `json.Decoder` yields, and `tostream` / `fromstream` (builtin.jq) as specifications.

  The decoder is a parameter: its observable behaviour for one reader is
    * the list of tokens `Token()` returns before its first error        (`List Tok`)
    * how that list ends: `io.EOF` at a token boundary, or any other error (`Term`)
    * what `More()` answers when no further token can be read            (`moreEnd : Bool`;
      at a clean end it is `false`, in a truncated text it may be either).
  `More()` before a token is determined by that token (`more`): it is false exactly in front
  of `]` / `}`.

  Go panics (index out of range on `s.states[len-1]`, slicing an empty path, the type
  assertion `.(int)`) are the explicit outcome `panic`.
  Core Lean only.
-/
import Gojq.Model.Json
namespace Gojq.Stream
open Gojq

/-- decoder tokens: the four delimiters, or any other token (null, bool, number, string;
    object keys arrive as string atoms exactly like string values) -/
inductive Tok where
  | lbrack | rbrack | lbrace | rbrace
  | atom (v : JV)
  deriving Repr, Inhabited

/-- how the token list ends -/
inductive Term where
  | eof      -- `Token()` returns io.EOF
  | err      -- `Token()` returns a syntax error / io.ErrUnexpectedEOF
  deriving Repr, DecidableEq, Inhabited

/-- jsonStateTopValue … jsonStateObjectEmptyEnd -/
inductive St where
  | top | arrStart | arrValue | arrEnd | arrEmptyEnd | objStart | objKey | objValue | objEnd | objEmptyEnd
  deriving Repr, DecidableEq, Inhabited

/-- machine state: `path` reversed (last element = head), `states` reversed (top = head) -/
structure S where
  rpath : List JV
  states : List St
  deriving Repr, Inhabited

def init : S := ⟨[], [.top]⟩

/-- array index as a path element (Go `int`) -/
def idxJV (i : Nat) : JV := .num (.int i)

/-- `s.copyPath()` as a value -/
def pathJV (rp : List JV) : JV := .arr rp.reverse
/-- `[]any{s.copyPath(), v}` -/
def leafEv (rp : List JV) (v : JV) : JV := .arr [pathJV rp, v]
/-- `[]any{s.copyPath()}` -/
def closeEv (rp : List JV) : JV := .arr [pathJV rp]

/-- `dec.More()` in front of the remaining tokens -/
def more (moreEnd : Bool) : List Tok → Bool
  | [] => moreEnd
  | .rbrack :: _ => false
  | .rbrace :: _ => false
  | _ => true

/-- result of one call of `next` -/
inductive R where
  | ev (e : JV) (s : S) (rest : List Tok)   -- returned an event; state and unread tokens afterwards
  | eof                                      -- returned io.EOF
  | error                                    -- returned another error (syntax error, io.ErrUnexpectedEOF)
  | panic                                    -- a Go run-time panic
  deriving Repr, Inhabited

/-- first `switch` of `next`: drop a pending End state (and its path element) -/
def popEnd (s : S) : Option S :=
  match s.states with
  | [] => none
  | .arrEnd :: st | .objEnd :: st =>
    match s.rpath with
    | [] => none
    | _ :: p => some ⟨p, st⟩
  | .arrEmptyEnd :: st | .objEmptyEnd :: st => some ⟨s.rpath, st⟩
  | _ => some s

/-- `if s.dec.More() { … }`: move the path to the next sibling -/
def adjust (s : S) (m : Bool) : Option S :=
  if m then
    match s.states with
    | [] => none
    | .arrValue :: _ =>
      match s.rpath with
      | .num (.int i) :: p => some ⟨.num (.int (i + 1)) :: p, s.states⟩
      | _ => none
    | .objValue :: _ =>
      match s.rpath with
      | [] => none
      | _ :: p => some ⟨p, s.states⟩
    | _ => some s
  else some s

/-- the code of `next` before its `for` loop -/
def prologue (s : S) (m : Bool) : Option S := (popEnd s).bind (adjust · m)

/-- state a container is opened from -/
def adv : St → St
  | .arrStart => .arrValue
  | .objKey => .objValue
  | t => t

/-- the `for` loop of `next`, structurally recursive on the unread tokens -/
def loop (term : Term) : S → List Tok → R
  | s, [] =>
    match term with
    | .err => .error
    | .eof =>
      match s.states with
      | [] => .panic
      | .top :: _ => .eof
      | _ => .error
  | s, t :: rest =>
    match s.states with
    | [] => .panic
    | st :: sts =>
      match t with
      | .lbrack => loop term ⟨idxJV 0 :: s.rpath, .arrStart :: adv st :: sts⟩ rest
      | .lbrace => loop term ⟨s.rpath, .objStart :: adv st :: sts⟩ rest
      | .rbrack =>
        match st with
        | .arrStart =>
          match s.rpath with
          | [] => .panic
          | _ :: p => .ev (leafEv p (.arr [])) ⟨p, .arrEmptyEnd :: sts⟩ rest
        | _ => .ev (closeEv s.rpath) ⟨s.rpath, .arrEnd :: sts⟩ rest
      | .rbrace =>
        match st with
        | .objStart => .ev (leafEv s.rpath (.obj [])) ⟨s.rpath, .objEmptyEnd :: sts⟩ rest
        | _ => .ev (closeEv s.rpath) ⟨s.rpath, .objEnd :: sts⟩ rest
      | .atom v =>
        match st with
        | .arrStart | .arrValue => .ev (leafEv s.rpath v) ⟨s.rpath, .arrValue :: sts⟩ rest
        | .objStart | .objValue => loop term ⟨v :: s.rpath, .objKey :: sts⟩ rest
        | .objKey => .ev (leafEv s.rpath v) ⟨s.rpath, .objValue :: sts⟩ rest
        | _ => .ev (leafEv s.rpath v) ⟨s.rpath, .top :: sts⟩ rest

/-- one call of `jsonStream.next` -/
def next (moreEnd : Bool) (term : Term) (s : S) (toks : List Tok) : R :=
  match prologue s (more moreEnd toks) with
  | none => .panic
  | some s1 => loop term s1 toks

/-- how a run of successive `next` calls ends -/
inductive Fin where
  | eof | error | panic | fuel
  deriving Repr, DecidableEq, Inhabited

/-- call `next` until it returns an error (as `jsonInputIter` does): the events and the end -/
def runAll (moreEnd : Bool) (term : Term) : Nat → S → List Tok → List JV × Fin
  | 0, _, _ => ([], .fuel)
  | fuel + 1, s, toks =>
    match next moreEnd term s toks with
    | .ev e s' rest => let r := runAll moreEnd term fuel s' rest; (e :: r.1, r.2)
    | .eof => ([], .eof)
    | .error => ([], .error)
    | .panic => ([], .panic)

/-- the whole reader: every call returns an event or ends the run, and every event consumes
    a token, so `length + 1` calls suffice (`runAll_of_Runs`) -/
def run (moreEnd : Bool) (term : Term) (toks : List Tok) : List JV × Fin :=
  runAll moreEnd term (toks.length + 1) init toks

/-! ## the decoder's tokens for a document (object members in the order of the text) -/

mutual
def tokens : JV → List Tok
  | .arr xs => .lbrack :: (tokensL xs ++ [.rbrack])
  | .obj kvs => .lbrace :: (tokensM kvs ++ [.rbrace])
  | .null => [.atom .null]
  | .bool b => [.atom (.bool b)]
  | .num n => [.atom (.num n)]
  | .str s => [.atom (.str s)]
def tokensL : List JV → List Tok
  | [] => []
  | x :: xs => tokens x ++ tokensL xs
def tokensM : List (Bytes × JV) → List Tok
  | [] => []
  | (k, x) :: xs => .atom (.str k) :: (tokens x ++ tokensM xs)
end

/-- tokens of a sequence of documents (one reader) -/
def tokensDocs : List JV → List Tok
  | [] => []
  | v :: vs => tokens v ++ tokensDocs vs

/-! ## the same tokens, each tagged: does it complete a value (a scalar in value position, a
    closing delimiter) — these are the tokens at which one event becomes determined -/

mutual
def ttokens : JV → List (Tok × Bool)
  | .arr xs => (.lbrack, false) :: (ttokensL xs ++ [(.rbrack, true)])
  | .obj kvs => (.lbrace, false) :: (ttokensM kvs ++ [(.rbrace, true)])
  | .null => [(.atom .null, true)]
  | .bool b => [(.atom (.bool b), true)]
  | .num n => [(.atom (.num n), true)]
  | .str s => [(.atom (.str s), true)]
def ttokensL : List JV → List (Tok × Bool)
  | [] => []
  | x :: xs => ttokens x ++ ttokensL xs
def ttokensM : List (Bytes × JV) → List (Tok × Bool)
  | [] => []
  | (k, x) :: xs => (.atom (.str k), false) :: (ttokens x ++ ttokensM xs)
end

/-- number of value-completing tokens -/
def completed (l : List (Tok × Bool)) : Nat := l.countP (·.2)

/-! ## `tostream` (builtin.jq) as a specification, members in stored order -/

mutual
def spec (rp : List JV) : JV → List JV
  | .arr xs =>
    match xs with
    | [] => [leafEv rp (.arr [])]
    | _ :: _ => specL rp 0 xs
  | .obj kvs =>
    match kvs with
    | [] => [leafEv rp (.obj [])]
    | _ :: _ => specM rp kvs
  | .null => [leafEv rp .null]
  | .bool b => [leafEv rp (.bool b)]
  | .num n => [leafEv rp (.num n)]
  | .str s => [leafEv rp (.str s)]
def specL (rp : List JV) (i : Nat) : List JV → List JV
  | [] => []
  | [x] => spec (idxJV i :: rp) x ++ [closeEv (idxJV i :: rp)]
  | x :: y :: ys => spec (idxJV i :: rp) x ++ specL rp (i + 1) (y :: ys)
def specM (rp : List JV) : List (Bytes × JV) → List JV
  | [] => []
  | [(k, x)] => spec (.str k :: rp) x ++ [closeEv (.str k :: rp)]
  | (k, x) :: y :: ys => spec (.str k :: rp) x ++ specM rp (y :: ys)
end

/-- `[tostream]` of a document -/
def streamSpec (v : JV) : List JV := spec [] v

def streamSpecDocs : List JV → List JV
  | [] => []
  | v :: vs => streamSpec v ++ streamSpecDocs vs

/-! ## `fromstream` (builtin.jq) as a fold, with the fragment of `setpath` it uses -/

def setAt (i : Nat) (y : JV) : List JV → List JV
  | [] => List.replicate i .null ++ [y]
  | x :: xs =>
    match i with
    | 0 => y :: xs
    | i + 1 => x :: setAt i y xs

/-- `setpath(p; x)` for paths of non-negative integers and strings; `none` = jq error -/
def setpath : List JV → JV → JV → Option JV
  | [], x, _ => some x
  | .num (.int i) :: p, x, .null =>
    if i < 0 then none else (setpath p x .null).map fun y => .arr (setAt i.toNat y [])
  | .num (.int i) :: p, x, .arr xs =>
    if i < 0 then none else
      (setpath p x (xs.getD i.toNat .null)).map fun y => .arr (setAt i.toNat y xs)
  | .str k :: p, x, .null => (setpath p x .null).map fun y => .obj [(k, y)]
  | .str k :: p, x, .obj kvs =>
    (setpath p x ((kvLookup k kvs).getD .null)).map fun y => .obj (kvInsert k y kvs)
  | _, _, _ => none

/-- the state object `{"v": …, "e": …}` of `fromstream`'s `foreach`; `null` is `⟨null, false⟩` -/
structure FS where
  v : JV
  e : Bool
  deriving Repr, Inhabited

inductive FOut where
  | ok (outs : List JV)
  | error (outs : List JV)       -- outputs so far, then a jq error (bad event shape / setpath error)
  deriving Repr, Inhabited

/-- one `foreach` step: update, then extract -/
def fromstreamStep (st : FS) (ev : JV) : Option FS :=
  let st0 : FS := if st.e then ⟨.null, false⟩ else st
  match ev with
  | .arr [.arr p, x] => (setpath p x st0.v).map fun v => ⟨v, p.length == 0⟩
  | .arr [.arr p] => some ⟨st0.v, p.length == 1⟩
  | _ => none

def fromstreamGo (st : FS) : List JV → List JV → FOut
  | [], acc => .ok acc.reverse
  | ev :: evs, acc =>
    match fromstreamStep st ev with
    | none => .error acc.reverse
    | some st' => fromstreamGo st' evs (if st'.e then st'.v :: acc else acc)

/-- `[fromstream(evs[])]` -/
def fromstreamSpec (evs : List JV) : FOut := fromstreamGo ⟨.null, false⟩ evs []

/- canonical form the library gives a decoded document: object members sorted by key,
   built by successive map assignment (a later duplicate replaces an earlier one) -/
mutual
def canon : JV → JV
  | .arr xs => .arr (canonL xs)
  | .obj kvs => .obj (canonM [] kvs)
  | .null => .null
  | .bool b => .bool b
  | .num n => .num n
  | .str s => .str s
def canonL : List JV → List JV
  | [] => []
  | x :: xs => canon x :: canonL xs
def canonM (acc : List (Bytes × JV)) : List (Bytes × JV) → List (Bytes × JV)
  | [] => acc
  | (k, x) :: xs => canonM (kvInsert k (canon x) acc) xs
end

/- objects are duplicate-free at every depth -/
mutual
def nodup : JV → Prop
  | .arr xs => nodupL xs
  | .obj kvs => nodupM kvs
  | .null => True
  | .bool _ => True
  | .num _ => True
  | .str _ => True
def nodupL : List JV → Prop
  | [] => True
  | x :: xs => nodup x ∧ nodupL xs
def nodupM : List (Bytes × JV) → Prop
  | [] => True
  | (k, x) :: rest => (∀ p ∈ rest, p.1 ≠ k) ∧ nodup x ∧ nodupM rest
end

end Gojq.Stream

/-
  C16 — cli/inputs.go and cli.createInputIter: the iterator stack as functions over lists.

  A reader (a file or stdin) is seen through whichever decoder the mode selects:
    `docs`  what successive `json.Decoder.Decode` calls give: complete values, possibly
            ended by a malformed document                          (jsonInputIter)
    `toks`/`term`  what successive `Token` calls give              (newStreamInputIter, Model/Cli/Stream)
    `text`  its bytes                                              (rawInputIter, readAllIter)
  `Next()` returns values or errors (`Item`); every iterator latches its first error /
  end (`i.err`), which is why each function below stops producing at that point.
  Core Lean only.
-/
import Gojq.Model.Cli.Stream
namespace Gojq.Inputs
open Gojq Gojq.Stream

inductive Doc where
  | value (v : JV)
  | malformed
  deriving Repr, Inhabited

structure Reader where
  docs : List Doc := []
  toks : List Tok := []
  term : Term := .eof
  text : Bytes := []
  deriving Repr, Inhabited

/-- what `Next()` returns -/
inductive Item where
  | val (v : JV)
  | err               -- an error value (message not modelled)
  | panic             -- a Go run-time panic inside `Next`
  deriving Repr, Inhabited

/-- jsonInputIter.Next over `Decode`: values up to the first malformed document, then the
    error once (`i.err` is set), then end -/
def jsonIter : List Doc → List Item
  | [] => []
  | .value v :: ds => .val v :: jsonIter ds
  | .malformed :: _ => [.err]

/-- newStreamInputIter: jsonInputIter.Next over `jsonStream.next` -/
def streamIter (r : Reader) : List Item :=
  let (es, fin) := run false r.term r.toks
  es.map .val ++ (match fin with
    | .eof => []
    | .error => [.err]
    | _ => [.panic])

/-- successive `ReadString('\n')` with the delimiter trimmed; a last line without newline is
    kept, an empty rest is not a line. `cur` is the current line, reversed. -/
def splitLines (cur : Bytes) : Bytes → List Bytes
  | [] => if cur.isEmpty then [] else [cur.reverse]
  | b :: rest => if b = 10 then cur.reverse :: splitLines [] rest else splitLines (b :: cur) rest

def rawLines (text : Bytes) : List Bytes := splitLines [] text

/-- rawInputIter -/
def rawIter (r : Reader) : List Item := (rawLines r.text).map fun l => .val (.str l)

/-- readAllIter -/
def readAllIter (r : Reader) : List Item := [.val (.str r.text)]

/-- a file name on the command line -/
inductive Arg where
  | stdin               -- "-"
  | file (r : Reader)   -- opens
  | missing             -- os.Open fails
  deriving Repr, Inhabited

/-- filesInputIter: each named reader in turn; an inner iterator that has ended (also after
    its error) is replaced by the next file's; a file that cannot be opened is one error.
    Reading "-" again finds stdin exhausted. -/
def filesIter (newIter : Reader → List Item) (stdin : Reader) : List Arg → List Item
  | [] => []
  | .stdin :: rest => newIter stdin ++ filesIter newIter {} rest
  | .file r :: rest => newIter r ++ filesIter newIter stdin rest
  | .missing :: rest => .err :: filesIter newIter stdin rest

/-- slurpInputIter: collect until the end; the first error is returned instead (and latched) -/
def slurpGo (acc : List JV) : List Item → List Item
  | [] => [.val (.arr acc.reverse)]
  | .val v :: rest => slurpGo (v :: acc) rest
  | .err :: _ => [.err]
  | .panic :: _ => [.panic]

def slurpIter (items : List Item) : List Item := slurpGo [] items

/-- slurpRawInputIter: `strings.Join(vs, "")`; `v.(string)` panics on a non-string -/
def slurpRawGo (acc : Bytes) : List Item → List Item
  | [] => [.val (.str acc)]
  | .val (.str s) :: rest => slurpRawGo (acc ++ s) rest
  | .val _ :: _ => [.panic]
  | .err :: _ => [.err]
  | .panic :: _ => [.panic]

def slurpRawIter (items : List Item) : List Item := slurpRawGo [] items

structure Mode where
  raw : Bool := false      -- -R
  stream : Bool := false   -- --stream
  slurp : Bool := false    -- -s
  deriving Repr, Inhabited, DecidableEq

/-- the per-reader iterator `createInputIter` selects (YAML not modelled) -/
def perReader (m : Mode) : Reader → List Item :=
  if m.raw then (if m.slurp then readAllIter else rawIter)
  else if m.stream then streamIter
  else fun r => jsonIter r.docs

/-- without -s -/
def baseIter (m : Mode) (args : List Arg) (stdin : Reader) : List Item :=
  match args with
  | [] => perReader m stdin
  | _ => filesIter (perReader m) stdin args

/-- cli.createInputIter: everything `iter.Next()` will return -/
def inputIter (m : Mode) (args : List Arg) (stdin : Reader) : List Item :=
  let base := baseIter m args stdin
  if m.slurp then (if m.raw then slurpRawIter base else slurpIter base) else base

/-- nullInputIter (what `process` iterates over under -n) -/
def nullIter : List Item := [.val .null]

/-! ## `input` and `inputs` draw from the same iterator (compiler.go funcInput, builtin.jq inputs) -/

inductive Draw where
  | val (v : JV)
  | err               -- the iterator returned an error value: `input` raises it
  | brk               -- iterator exhausted: `errors.New("break")`
  | panic
  deriving Repr, Inhabited

/-- one call of `input`: the result and what is left in the iterator -/
def drawInput : List Item → Draw × List Item
  | [] => (.brk, [])
  | .val v :: rest => (.val v, rest)
  | .err :: rest => (.err, rest)
  | .panic :: rest => (.panic, rest)

/-- `[inputs]` = `[try repeat(input) catch if . == "break" then empty else error end]`:
    the collected values, or an error (values collected so far are lost with the array) -/
def drawInputsGo (acc : List JV) : List Item → Except Draw (List JV) × List Item
  | [] => (.ok acc.reverse, [])
  | .val v :: rest => drawInputsGo (v :: acc) rest
  | .err :: rest => (.error .err, rest)
  | .panic :: rest => (.error .panic, rest)

def drawInputs (items : List Item) : Except Draw (List JV) × List Item := drawInputsGo [] items

/-- `k` successive calls of `input` -/
def drawN : Nat → List Item → List Draw × List Item
  | 0, items => ([], items)
  | k + 1, items =>
    let (d, rest) := drawInput items
    let (ds, rest') := drawN k rest
    (d :: ds, rest')

end Gojq.Inputs

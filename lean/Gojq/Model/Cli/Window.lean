/-
  cli/inputs.go — how `jsonInputIter` keeps the text an error position is resolved against.

  * non-seekable input (pipe): `inputReader` tees everything the decoder reads into `buf`;
    after each decoded value, once `buf` holds ≥ 16 KiB, `jsonInputIter.Next` advances the
    window: `n := dec.InputOffset() - i.offset; i.offset += n; i.line += count('\n', buf.Next(n))`.
    The decoder is a parameter: the model is driven by the events it causes —
    `read n` (n more bytes pulled through the TeeReader) and `decoded e` (a value was returned,
    `dec.InputOffset() = e`).  `stepOld` is the window reset as it was before the fix
    (`i.offset += buf.Len(); i.line += count('\n', buf); buf.Reset()`), kept for the
    counter-example in Props/C17.
  * seekable input (file): `getContents` re-reads the file in chunks up to the window that
    contains the error offset.
-/
import Gojq.Model.Cli.LineInfo
namespace Gojq.Cli
open Gojq

/-- `bytes.Count(b, []byte{'\n'})` -/
def countLF : Bytes → Nat
  | [] => 0
  | b :: rest => (if b == LF then 1 else 0) + countLF rest

/-- `jsonInputIter` fields for the buffered path, plus the input not yet read -/
structure Win where
  offset : Nat      -- i.offset
  line : Nat        -- i.line
  buf : Bytes       -- unread part of i.ir.buf
  rest : Bytes      -- bytes of the underlying reader not yet pulled through the TeeReader
deriving DecidableEq, Repr

inductive Ev
  | read (n : Nat)      -- the decoder's Read returned n bytes
  | decoded (e : Nat)   -- Next() returned a value; dec.InputOffset() = e
deriving DecidableEq, Repr

def Win.init (inp : Bytes) : Win := { offset := 0, line := 0, buf := [], rest := inp }

/-- one event; `none` = Go would panic (`buf.Next(n)` with n < 0). `thr` is 16*1024 in the code. -/
def Win.step (thr : Nat) (s : Win) : Ev → Option Win
  | .read n => some { s with buf := s.buf ++ s.rest.take n, rest := s.rest.drop n }
  | .decoded e =>
    if s.buf.length ≥ thr then
      if e < s.offset then none
      else
        let n := e - s.offset
        some { s with offset := s.offset + n, line := s.line + countLF (s.buf.take n), buf := s.buf.drop n }
    else some s

/-- the window reset before the fix: drops everything read so far, read-ahead included -/
def Win.stepOld (thr : Nat) (s : Win) : Ev → Option Win
  | .read n => some { s with buf := s.buf ++ s.rest.take n, rest := s.rest.drop n }
  | .decoded _ =>
    if s.buf.length ≥ thr then
      some { s with offset := s.offset + s.buf.length, line := s.line + countLF s.buf, buf := [] }
    else some s

def Win.run (step : Win → Ev → Option Win) : Win → List Ev → Option Win
  | s, [] => some s
  | s, e :: es => match step s e with
    | none => none
    | some s' => Win.run step s' es

def bufSize : Nat := 16 * 1024

/-- the error branch of `jsonInputIter.Next` on the buffered path, then `jsonParseError.Error()`.
    `absOff` is the decoder's `SyntaxError.Offset` (absolute in the stream). -/
def Win.report (w : Nat → Nat) (s : Win) : JsonErr → Report
  | .syntax absOff => jsonReport w s.buf s.line (.syntax (absOff - s.offset))
  | e => jsonReport w s.buf s.line e

/-- the loop of `getContents` for seekable input; `bs = bufSize`. State: file position, `*offset`,
    `*line`. `io.Copy` from a `LimitReader` returns what the file still has (no error at EOF). -/
def rereadLoop (bs : Nat) (inp : Bytes) : Nat → Nat → Int → Nat → Nat × Int × Nat
  | 0, pos, off, line => (pos, off, line)
  | fuel + 1, pos, off, line =>
    if off > ((bs * 3 / 4 : Nat) : Int) then
      let want : Int := min (bs : Int) (off - ((bs / 4 : Nat) : Int))
      let chunk := (inp.drop pos).take want.toNat
      let n := chunk.length
      let off' := off - n
      let line' := line + countLF chunk
      if n == 0 then (pos, off', line') else rereadLoop bs inp fuel (pos + n) off' line'
    else (pos, off, line)

/-- `getContents(&offset, &line)` on a seekable reader: (contents, offset', line') -/
def getContentsSeek (bs : Nat) (inp : Bytes) (off : Int) (line : Nat) : Bytes × Int × Nat :=
  let (pos, off', line') := rereadLoop bs inp (off.toNat + 1) 0 off line
  ((inp.drop pos).take bs, off', line')

/-- the error branch of `jsonInputIter.Next` on the seekable path (`i.offset = 0`, `i.line` starts at 0) -/
def seekReport (w : Nat → Nat) (bs : Nat) (inp : Bytes) : JsonErr → Report
  | .syntax absOff =>
    let (contents, off', line') := getContentsSeek bs inp absOff 0
    jsonReport w contents line' (.syntax off')
  | .unexpectedEOF =>
    let (contents, _, line') := getContentsSeek bs inp inp.length 0
    jsonReport w contents line' .unexpectedEOF
  | .other => jsonReport w inp 0 .other   -- getContents(nil, nil): the whole file

end Gojq.Cli

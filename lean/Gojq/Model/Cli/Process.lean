/-
  C15 — cli/cli.go `run` / `process` / `printValues` / `createMarshaler`, cli/marshaler.go
  `rawMarshaler`, cli/error.go status codes: what the command writes and the status it returns,
  as a fold over the input iterator's results, the library's outputs per input being GIVEN.

  A value is reduced to what `printValues` looks at (`Val`): whether it is null/false, its bytes
  when it is a string, and the bytes the selected JSON encoder (-c / --tab / --indent n) writes
  for it.  Errors carry their message and `ExitCode()` when they implement it; `halt` /
  `halt_error` carry code and message.  YAML output is not modelled.
  Core Lean only.
-/
import Gojq.Model.Json
namespace Gojq.Process
open Gojq

structure Opts where
  raw : Bool := false          -- -r
  raw0 : Bool := false         -- --raw-output0
  join : Bool := false         -- -j
  exitStatus : Bool := false   -- -e
  deriving Repr, Inhabited, DecidableEq

structure Val where
  falsy : Bool               -- `v == nil || v == false`
  str : Option Bytes         -- `v.(string)`
  enc : Bytes                -- the encoder's rendering
  deriving Repr, Inhabited

/-- `HaltError.Value()`: nil, a string, or another value (its `gojq.Marshal` bytes) -/
inductive HaltMsg where
  | none
  | str (s : Bytes)
  | json (b : Bytes)
  deriving Repr, Inhabited

/-- one result of `iter.Next()` on `code.Run(v, …)` -/
inductive Out where
  | value (v : Val)
  | error (msg : Bytes) (code : Option Int)   -- any error but HaltError; `code` = its `ExitCode()` if it has one
  | halt (code : Int) (msg : HaltMsg)          -- *gojq.HaltError
  deriving Repr, Inhabited

/-- one result of the input iterator -/
inductive In where
  | value (outs : List Out)    -- a value, with everything the library would yield for it
  | error                      -- an error value (malformed input, unreadable file)
  deriving Repr, Inhabited

/-- one `Write` to stderr -/
inductive ErrChunk where
  | diag (msg : Bytes)     -- "gojq: " ++ msg ++ "\n"
  | inputDiag              -- "gojq: " ++ (input iterator's error) ++ "\n"
  | nulDiag                -- "gojq: cannot output a string containing NUL character: …\n"
  | raw (b : Bytes)        -- halt_error's message
  deriving Repr, Inhabited

structure St where
  stdout : Bytes := []
  stderr : List ErrChunk := []
  /-- `err` of `process`: none = nil; some c = the last error, c its `ExitCode()` if it has one -/
  lastErr : Option (Option Int) := none
  /-- `cli.exitCodeError.code`, maintained only under -e -/
  ecode : Int := 4
  deriving Repr, Inhabited

/-- `m.marshal(v, cli.outStream)` for the marshaler `createMarshaler` selects:
    `none` = rawMarshaler's NUL error -/
def marshal (o : Opts) (v : Val) : Option Bytes :=
  if o.raw || o.raw0 || o.join then
    match v.str with
    | some s => if o.raw0 && s.contains 0 then none else some s
    | none => some v.enc
  else some v.enc

/-- what `printValues` writes after a value -/
def term (o : Opts) : Bytes :=
  if o.raw0 then [0] else if o.join then [] else [10]

/-- why `printValues` returned early -/
inductive Stop where
  | error (msg : Bytes) (code : Option Int)
  | nul
  | halt (code : Int) (msg : HaltMsg)
  deriving Repr, Inhabited

/-- cli.printValues -/
def printValues (o : Opts) : List Out → St → St × Option Stop
  | [], st => (st, none)
  | .value v :: rest, st =>
    match marshal o v with
    | none => (st, some .nul)
    | some b =>
      printValues o rest { st with
        stdout := st.stdout ++ b ++ term o,
        ecode := if o.exitStatus then (if v.falsy then 1 else 0) else st.ecode }
  | .error m c :: _, st => (st, some (.error m c))
  | .halt c m :: _, st => (st, some (.halt c m))

def haltChunks : HaltMsg → List ErrChunk
  | .none => []
  | .str s => [.raw s]
  | .json b => [.raw b, .raw [10]]

/-- cli.process -/
def process (o : Opts) : List In → St → St
  | [], st => st
  | .error :: rest, st =>
    process o rest { st with stderr := st.stderr ++ [.inputDiag], lastErr := some none }
  | .value outs :: rest, st =>
    match printValues o outs st with
    | (st1, none) => process o rest st1
    | (st1, some (.halt c m)) =>
      { st1 with stderr := st1.stderr ++ haltChunks m, lastErr := some (some c) }
    | (st1, some (.error m c)) =>
      process o rest { st1 with stderr := st1.stderr ++ [.diag m], lastErr := some c }
    | (st1, some .nul) =>
      process o rest { st1 with stderr := st1.stderr ++ [.nulDiag], lastErr := some none }

/-- what `cli.run` returns once `process` has run: `emptyError.ExitCode()`, or under -e the
    deferred replacement by `cli.exitCodeError` -/
def exitCode (o : Opts) (st : St) : Int :=
  match st.lastErr with
  | some (some c) => c
  | some none => 5
  | none => if o.exitStatus then st.ecode else 0

/-- what happens before `process` is reached -/
inductive Pre where
  | flagError     -- parseFlags failed: flagParseError
  | otherError    -- indentation range, --argjson/--slurpfile/--rawfile/-f failures: a plain error
  | queryError    -- gojq.Parse / gojq.Compile failed: queryParseError / compileError
  | ok
  deriving Repr, Inhabited, DecidableEq

/-- status `cli.run` returns -/
def runStatus (o : Opts) (pre : Pre) (ins : List In) : Int :=
  match pre with
  | .flagError => 2
  | .otherError => 5
  | .queryError => 3
  | .ok => exitCode o (process o ins {})

/-- the status the operating system reports for `os.Exit(c)` -/
def osStatus (c : Int) : Int := c % 256

/-! ## specification side: used only to state the theorems of Props/C15 -/

/-- the rendering of the outputs before the first error / halt / rejected string of one input,
    each followed by the terminator -/
def outPrefix (o : Opts) : List Out → Bytes
  | .value v :: rest =>
    match marshal o v with
    | some b => b ++ term o ++ outPrefix o rest
    | none => []
  | _ => []

/-- how one input's outputs end, as far as the command looks -/
def firstStop (o : Opts) : List Out → Option Stop
  | [] => none
  | .value v :: rest =>
    match marshal o v with
    | some _ => firstStop o rest
    | none => some .nul
  | .error m c :: _ => some (.error m c)
  | .halt c m :: _ => some (.halt c m)

/-- the last value of one input that was printed -/
def lastPrinted (o : Opts) : List Out → Option Val → Option Val
  | .value v :: rest, acc =>
    match marshal o v with
    | some _ => lastPrinted o rest (some v)
    | none => acc
  | _, acc => acc

def isHalt : Option Stop → Bool
  | some (.halt _ _) => true
  | _ => false

/-- expected stdout: concatenation over the inputs, in order, up to and including the input
    that halts -/
def stdoutSpec (o : Opts) : List In → Bytes
  | [] => []
  | .error :: rest => stdoutSpec o rest
  | .value outs :: rest =>
    outPrefix o outs ++ (if isHalt (firstStop o outs) then [] else stdoutSpec o rest)

/-- the run as the list of events the status depends on -/
inductive Event where
  | printed (falsy : Bool)          -- a value was written to stdout
  | failed (code : Option Int)      -- a runtime / output / input error (its `ExitCode()` if any)
  | halted (code : Int)
  deriving Repr, Inhabited

def outEvents (o : Opts) : List Out → List Event
  | [] => []
  | .value v :: rest =>
    match marshal o v with
    | some _ => .printed v.falsy :: outEvents o rest
    | none => [.failed none]
  | .error _ c :: _ => [.failed c]
  | .halt c _ :: _ => [.halted c]

def isHalted : List Event → Bool
  | [] => false
  | .halted _ :: _ => true
  | _ :: rest => isHalted rest

/-- the events of the whole run, in order; nothing after a halt -/
def events (o : Opts) : List In → List Event
  | [] => []
  | .error :: rest => .failed none :: events o rest
  | .value outs :: rest =>
    let es := outEvents o outs
    es ++ (if isHalted es then [] else events o rest)

/-- the status as a total function of the event list, read from the END of the run:
    a halt (necessarily last) decides; otherwise the LAST error decides (its own code, 5 by
    default); otherwise, under -e, the LAST printed value decides (1 if null/false, 0 if not),
    4 if nothing was printed; otherwise 0. `acc` is the verdict of the events seen so far. -/
inductive Verdict where
  | none                  -- nothing printed, no error
  | printed (falsy : Bool)
  | failed (code : Option Int)
  | halted (code : Int)
  deriving Repr, Inhabited

def verdictStep : Verdict → Event → Verdict
  | .halted c, _ => .halted c                 -- nothing follows a halt
  | _, .halted c => .halted c
  | _, .failed c => .failed c                 -- a later error replaces an earlier one and any -e state
  | .failed c, .printed _ => .failed c        -- an error status overrides -e's
  | _, .printed f => .printed f               -- the last output counts

def verdictStatus (o : Opts) : Verdict → Int
  | .halted c => c
  | .failed (some c) => c
  | .failed none => 5
  | .printed f => if o.exitStatus then (if f then 1 else 0) else 0
  | .none => if o.exitStatus then 4 else 0

def statusSpec (o : Opts) (evs : List Event) : Int :=
  verdictStatus o (evs.foldl verdictStep .none)

end Gojq.Process

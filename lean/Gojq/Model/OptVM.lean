/-
  Glue between the interpreter model (Model/VM.lean) and the model of the peephole pass
  (Model/Optimize.lean), for the semantic part of C04 (Props/C04Sim.lean).  Core Lean only.

  * `view`   — the opaque instruction record of Model/Optimize.lean that an interpreter instruction
               dumps to (opcode name, integer operand, scope operand), as `VerifCodes` produces it.
  * `stepV`, `optV` — `codeOpsStep` / `optimizeCodeOps` restated directly on interpreter code
               (the pass only changes opcodes and jump targets, operands ride along).  That the
               restatement agrees with `Opt.optimizeCodeOps` through `view` is PROVED in
               Proofs/OptSimView.lean (`optV_view`) and checked on examples in Props/C04Sim.lean.
  * `stepE`  — one turn of the loop of `Next` on the environment alone (no poll counter, never
               cancelled): `VM.step` is recovered from it by counting polls (`step_eq_stepE`,
               Proofs/OptSimLocal.lean).
  * `stepC`, `loopC`, `nextC`, `historyC` — the same loop as `VM.loop` under
               `context.Background()`, where the oracle of native answers is indexed by the number
               of ANSWER-CONSUMING instructions executed so far (`usesExt`) instead of by the poll
               number.  The recorded answers are a sequence consumed in order; jump threading
               removes polls (a jump to a jump becomes one jump) but never an answer-consuming
               instruction, so this is the indexing under which "the same recorded answers" makes
               sense for the original and the optimised code.  `stepC` is DEFINED through `VM.step`.
-/
import Gojq.Model.VM
import Gojq.Model.Optimize
namespace Gojq.OptVM
open Gojq Gojq.VM

/-! ## the view of interpreter code that the pass model sees -/

def opName : Instr → String
  | .nop => "nop" | .push _ => "push" | .pop => "pop" | .dup => "dup" | .const _ => "const"
  | .load _ _ => "load" | .store _ _ => "store" | .object _ => "object" | .append _ _ => "append"
  | .fork _ => "fork" | .forktrybegin _ => "forktrybegin" | .forktryend => "forktryend"
  | .forkalt _ => "forkalt" | .forklabel _ _ => "forklabel" | .backtrack => "backtrack"
  | .jump _ => "jump" | .jumpifnot _ => "jumpifnot" | .index _ => "index" | .indexarray _ => "indexarray"
  | .call _ => "call" | .callNative _ _ => "call" | .callrec _ => "callrec" | .pushpc _ => "pushpc"
  | .callpc => "callpc" | .scope _ _ _ => "scope" | .ret => "ret" | .iter => "iter"
  | .expbegin => "expbegin" | .expend => "expend" | .pathbegin => "pathbegin" | .pathend => "pathend"
  | .bad => "bad"

/-- the integer operand, where the operand is a Go `int` -/
def intOperand : Instr → Option Int
  | .object n => some n
  | .fork t | .forktrybegin t | .forkalt t | .jump t | .jumpifnot t => some t
  | .call t | .callrec t | .pushpc t => some t
  | _ => none

/-- what `VerifCodes` dumps for the pass model; every non-integer operand is opaque (`"_"`) -/
def view (i : Instr) : Opt.Instr :=
  { op := opName i, tgt := intOperand i, arg := "_",
    ints := match i with | .scope a b c => [a, b, c] | _ => [] }

/-- the pass model keeps the (dead) operand of an instruction it turns into `nop`; interpreter
    `nop`s have none.  Comparison through the view forgets the operands of `nop`s. -/
def normNop (i : Opt.Instr) : Opt.Instr := if i.op == "nop" then { op := "nop" } else i

/-! ## the peephole pass on interpreter code -/

/-- operand of the five opcodes whose operand `optimizeCodeOps` records in `targets` -/
def targetOf : Instr → Option Int
  | .fork t | .forktrybegin t | .forkalt t | .jump t | .jumpifnot t => some t
  | _ => none

/-- `targets[k]` = some jump/fork instruction has operand `k` -/
def targetsV (code : Array Instr) : Array Bool :=
  code.foldl (fun t c =>
    match targetOf c with
    | some k => if 0 ≤ k ∧ k.toNat < t.size then t.set! k.toNat true else t
    | none => t) (Array.replicate (code.size + 1) false)

def isPushLike : Instr → Bool
  | .push _ | .dup | .load _ _ => true
  | _ => false

def jumpTgt : Instr → Option Int
  | .jump t | .jumpifnot t => some t
  | _ => none

/-- `code.v = next.v` on a jump / jumpifnot -/
def retarget : Instr → Int → Instr
  | .jump _, u => .jump u
  | .jumpifnot _, u => .jumpifnot u
  | i, _ => i

/-- iteration `i` of the backward loop of `optimizeCodeOps` (`Opt.codeOpsStep` on interpreter code);
    `none` = the Go code would panic -/
def stepV (targets : Array Bool) (code : Array Instr) (i : Nat) : Option (Array Instr) :=
  match code[i]? with
  | none => none
  | some c =>
    if isPushLike c then
      if targets.getD (i + 1) false then some code else
      match code[i + 1]? with
      | none => none
      | some .pop => some ((code.set! i .nop).set! (i + 1) .nop)
      | some (.const v) => some ((code.set! i .nop).set! (i + 1) (.push v))
      | some _ => some code
    else
      match jumpTgt c with
      | none => some code
      | some j =>
        if j - 1 == (i : Int) then some (code.set! i .nop)
        else if j < 0 then none
        else match code[j.toNat]? with
          | none => none
          | some (.jump u) => some (code.set! i (retarget c u))
          | some _ => some code

/-- `(*compiler).optimizeCodeOps` on interpreter code -/
def optV (code : Array Instr) : Option (Array Instr) :=
  (List.range code.size).reverse.foldlM (stepV (targetsV code)) code

/-! ## the static conditions on compiler output that the semantic theorem needs -/

/-- operand of the opcodes that call (or make a closure of) a function entry -/
def callTarget : Instr → Option Int
  | .call t | .callrec t | .pushpc t => some t
  | _ => none

def isScope : Instr → Bool
  | .scope _ _ _ => true
  | _ => false

/-- static scan of code BEFORE the pass: every `call` / `callrec` / `pushpc` operand is the pc of
    a `scope` instruction (a function entry); the last instruction is `ret`; no `jumpifnot`
    targets its own successor (the pass would turn it into `nop` and drop its pop) -/
def wfCheck (c : Array Instr) : Bool :=
  ((List.range c.size).all fun pc =>
    match c[pc]? with
    | some ins =>
      (match callTarget ins with
       | some t => decide (0 ≤ t) && (match c[t.toNat]? with | some sc => isScope sc | none => false)
       | none => true) &&
      (match ins with
       | .jumpifnot t => t != (pc : Int) + 1
       | _ => true)
    | none => true) &&
  (match c.size with
   | 0 => false
   | n + 1 => match c[n]? with | some .ret => true | _ => false)

/-- the same scan on the dumped instruction list (what a driver stream sees); agrees with `wfCheck`
    through `view` (`wfCheckView_view`, Proofs/OptSimView.lean) -/
def wfCheckView (c : Array Opt.Instr) : Bool :=
  ((List.range c.size).all fun pc =>
    match c[pc]? with
    | some ins =>
      (if ins.op == "call" || ins.op == "callrec" || ins.op == "pushpc" then
        match ins.tgt with
        | some t => decide (0 ≤ t) && (match c[t.toNat]? with | some sc => sc.op == "scope" | none => false)
        | none => true
       else true) &&
      (if ins.op == "jumpifnot" then
        match ins.tgt with
        | some t => t != (pc : Int) + 1
        | none => true
       else true)
    | none => true) &&
  (match c.size with
   | 0 => false
   | n + 1 => match c[n]? with | some i => i.op == "ret" | none => false)

/-! ## one turn of the loop on the environment alone -/

/-- instructions that consult the oracle record of their poll (a native / `funcIndex2` / iterator
    answer, a `pathIntact` answer or an error preview) -/
def usesExt : Instr → Bool
  | .object _ | .index _ | .indexarray _ | .callNative _ _ | .iter | .pathend => true
  | _ => false

inductive StepE where
  | cont (l : L) (e : Env)
  | fin (o : Outcome) (e : Env)

/-- the deferred `env.pc, env.backtrack = pc, true` -/
def saveE (e : Env) (pc : Int) : Env := { e with pc := pc, backtrack := true }

/-- `VM.unwind` on the environment -/
def unwindE (size : Nat) (l : L) (e : Env) : StepE :=
  match e.forks with
  | [] =>
    match l.err with
    | some er => .fin (.error er) (saveE e l.pc)
    | none => .fin .done (saveE e size)
  | f :: rest => .cont { l with pc := (popfork f rest e).2, backtrack := true } (popfork f rest e).1

/-- `VM.step` under a context that is never cancelled, on the environment alone; `x` is the oracle
    record this turn may consult -/
def stepE (code : Array Instr) (x : ExtRec) (l : L) (e : Env) : StepE :=
  if l.pc < code.size then
    if l.pc < 0 then .fin (.panic .codesIndex) (saveE e l.pc) else
    match exec (code.getD l.pc.toNat .bad) x l e with
    | .panic site => .fin (.panic site) (saveE e l.pc)
    | .stuck why => .fin (.stuck why) (saveE e l.pc)
    | .ok (ctl, l') e' =>
      match ctl with
      | .fall => .cont { l' with pc := l'.pc + 1 } e'
      | .jump => .cont l' e'
      | .ret v => .fin (.value v) (saveE e' l'.pc)
      | .brk => unwindE code.size l' e'
  else unwindE code.size l e

def StepE.toStep (polls : Nat) : StepE → Step
  | .cont l e => .cont l { env := e, polls := polls }
  | .fin o e => .fin o { env := e, polls := polls }

/-! ## the loop with a call-indexed oracle -/

def never : Nat → Bool := fun _ => false

/-- 1 if the turn at `l.pc` executes an answer-consuming instruction, else 0 -/
def tickAt (code : Array Instr) (l : L) : Nat :=
  if 0 ≤ l.pc ∧ l.pc < code.size ∧ usesExt (code.getD l.pc.toNat .bad) = true then 1 else 0

def Step.setPolls (n : Nat) : Step → Step
  | .cont l s => .cont l { s with polls := n }
  | .fin o s => .fin o { s with polls := n }

/-- one turn of `VM.step` (never cancelled) where `s.polls` counts the answer-consuming
    instructions executed so far and `ext` is indexed by that count -/
def stepC (code : Array Instr) (ext : Nat → ExtRec) (l : L) (s : St) : Step :=
  Step.setPolls (s.polls + tickAt code l) (step ⟨code, never, ext⟩ l s)

/-- `VM.loop` over `stepC` -/
def loopC (code : Array Instr) (ext : Nat → ExtRec) : Nat → L → St → Outcome × St
  | fuel, l, s =>
    match stepC code ext l s with
    | .fin o s' => (o, s')
    | .cont l' s' =>
      match fuel with
      | 0 => (.outOfFuel, s'.save l'.pc)
      | fuel + 1 => loopC code ext fuel l' s'

/-- `VM.next` over `loopC` -/
def nextC (code : Array Instr) (ext : Nat → ExtRec) (fuel : Nat) (s : St) : Outcome × St :=
  loopC code ext fuel (entry ⟨code, never, ext⟩ s) s

/-- the `(value, ok)` history of `n` successive calls of `Next` -/
def historyC (code : Array Instr) (ext : Nat → ExtRec) (fuel : Nat) : Nat → St → List Outcome
  | 0, _ => []
  | n + 1, s => let r := nextC code ext fuel s; r.1 :: historyC code ext fuel n r.2

/-- the state after `n` successive calls -/
def afterC (code : Array Instr) (ext : Nat → ExtRec) (fuel : Nat) : Nat → St → St
  | 0, s => s
  | n + 1, s => afterC code ext fuel n (nextC code ext fuel s).2

/-! ## the two oracle indexings are re-indexings of each other

  `callOracle` turns a poll-indexed oracle into the call-indexed oracle of the same run (the records
  read by answer-consuming instructions, in order); `pollOracle` turns a call-indexed oracle into
  the poll-indexed oracle of the same run (every poll gets the record at the current call index).
  Proofs/OptSimIndex.lean proves that the runs coincide (`historyC_callOracle`, `history_pollOracle`). -/

/-- one call of `Next` under a poll-indexed oracle: the records read by answer-consuming
    instructions, in order -/
def consumed (code : Array Instr) (ext : Nat → ExtRec) : Nat → L → St → List ExtRec
  | fuel, l, s =>
    (if tickAt code l = 1 then [ext s.polls] else []) ++
    match step ⟨code, never, ext⟩ l s with
    | .fin _ _ => []
    | .cont l' s' =>
      match fuel with
      | 0 => []
      | fuel + 1 => consumed code ext fuel l' s'

/-- … over `n` successive calls -/
def consumedH (code : Array Instr) (ext : Nat → ExtRec) (fuel : Nat) : Nat → St → List ExtRec
  | 0, _ => []
  | n + 1, s =>
    consumed code ext fuel (entry ⟨code, never, ext⟩ s) s ++
      consumedH code ext fuel n (next ⟨code, never, ext⟩ fuel s).2

def callOracle (code : Array Instr) (ext : Nat → ExtRec) (fuel n : Nat) (s : St) : Nat → ExtRec :=
  fun k => (consumedH code ext fuel n s).getD k {}

/-- one call of `Next` under a call-indexed oracle: for every poll (turn at an instruction), the
    record at the current call index -/
def pollRecs (code : Array Instr) (extC : Nat → ExtRec) : Nat → L → St → List ExtRec
  | fuel, l, s =>
    (if 0 ≤ l.pc ∧ l.pc < code.size then [extC s.polls] else []) ++
    match stepC code extC l s with
    | .fin _ _ => []
    | .cont l' s' =>
      match fuel with
      | 0 => []
      | fuel + 1 => pollRecs code extC fuel l' s'

def pollRecsH (code : Array Instr) (extC : Nat → ExtRec) (fuel : Nat) : Nat → St → List ExtRec
  | 0, _ => []
  | n + 1, s =>
    pollRecs code extC fuel (entry ⟨code, never, extC⟩ s) s ++
      pollRecsH code extC fuel n (nextC code extC fuel s).2

def pollOracle (code : Array Instr) (extC : Nat → ExtRec) (fuel n : Nat) (s : St) : Nat → ExtRec :=
  fun p => (pollRecsH code extC fuel n s).getD p {}

/-- an outcome that is an answer of the real `Next`: a value, an error, or `(nil, false)` —
    not a Go panic, not a gap of the model, not the model's loop bound -/
def _root_.Gojq.VM.Outcome.proper : Outcome → Bool
  | .value _ | .error _ | .done => true
  | _ => false

end Gojq.OptVM

/-
  Glue between the interpreter model (Model/VM.lean) and the model of `(*compiler).optimizeTailRec`
  (Model/Optimize.lean), for the semantic part of C04 about tail calls (Props/C04Tail.lean).
  Core Lean only.

  * `optTailV`, `tailStepV`, `followV` — `Opt.optimizeTailRec` / `tailRecStep` / `followJumps`
    restated directly on interpreter code (the pass only turns `call f` into `jump f+1` or
    `callrec f`).  That the restatement agrees with the pass model through the dump `OptVM.view` is
    PROVED in Proofs/TailSimView.lean (`optTailV_view`).
  * `tailShapeCheck`, `closureFree` — the static conditions on the code BEFORE the pass that the
    simulation theorem needs, as decidable scans; `…View` are the same scans on a dumped instruction
    list (what a driver stream sees), equal through the dump `viewT` by construction: both are the
    one scan `shapeCheckK` / `closureFreeK` over the `Kind` of each instruction.
-/
import Gojq.Model.OptVM
namespace Gojq.TailVM
open Gojq Gojq.VM Gojq.OptVM

/-! ## the pass on interpreter code -/

/-- follow jumps from `j` to the first instruction that is not a jump: `none` = the Go loop does not
    end (or indexes with a negative target); `some none` = it runs off the end of the code -/
def followV (code : Array Instr) : Nat → Nat → Option (Option Instr)
  | 0, _ => none
  | fuel + 1, j =>
    match code[j]? with
    | none => some none
    | some (.jump t) => if t < 0 then none else followV code fuel t.toNat
    | some c => some (some c)

structure TRStateV where
  code : Array Instr
  pcs : List Nat            -- innermost scope first
  scopes : List (Nat × Bool)
  stop : Bool := false

/-- one iteration of the loop of `optimizeTailRec` (`Opt.tailRecStep` on interpreter code) -/
def tailStepV (st : TRStateV) (i : Nat) : Option TRStateV :=
  if st.stop then some st else
  match st.code[i]? with
  | none => none
  | some (.scope _ v1 v2) =>
    if v2 == 0 then some { st with pcs := i :: st.pcs, scopes := (i, v1 == 0) :: st.scopes }
    else some { st with pcs := i :: st.pcs }
  | some (.call j) =>
    match st.pcs with
    | top :: _ =>
      if j != (top : Int) then some st else
      match st.scopes.lookup top with
      | none => some st
      | some canjump =>
        match followV st.code (st.code.size + 1) (i + 1) with
        | none => none
        | some (some .ret) =>
          if canjump then some { st with code := st.code.set! i (.jump ((top : Int) + 1)) }
          else some { st with code := st.code.set! i (.callrec j) }
        | some _ => some st
    | [] => some st
  | some .ret =>
    match st.pcs with
    | [] => some { st with stop := true }
    | _ :: rest => some { st with pcs := rest }
  | some _ => some st

/-- `(*compiler).optimizeTailRec` on interpreter code -/
def optTailV (code : Array Instr) : Option (Array Instr) :=
  ((List.range code.size).foldlM tailStepV { code := code, pcs := [], scopes := [] }).map (·.code)

/-! ## the static conditions, as one scan over instruction kinds -/

/-- what the scan looks at in an instruction -/
inductive Kind where
  | scope (id vars nargs : Int)   -- function entry
  | call (t : Int)                -- `opcall` with a pc operand
  | jump (t : Int)
  | branch (t : Int)              -- fork, forktrybegin, forkalt, jumpifnot
  | var (id : Int)                -- load, store, append, forklabel: the scope id of the variable
  | ret
  | clo                           -- pushpc, callpc
  | callrec
  | other
  deriving DecidableEq, Repr

def kindOf : Instr → Kind
  | .scope a b c => .scope a b c
  | .call t => .call t
  | .jump t => .jump t
  | .fork t | .forktrybegin t | .forkalt t | .jumpifnot t => .branch t
  | .load a _ | .store a _ | .append a _ | .forklabel a _ => .var a
  | .ret => .ret
  | .pushpc _ | .callpc => .clo
  | .callrec _ => .callrec
  | _ => .other

def isScopeK : Option Kind → Bool
  | some (.scope _ _ _) => true
  | _ => false

def isJumpK : Option Kind → Bool
  | some (.jump _) => true
  | _ => false

/-- `id` is the id of a scope without variables and without arguments -/
def deadK (get : Nat → Option Kind) (size : Nat) (id : Int) : Bool :=
  (List.range size).any fun j =>
    match get j with
    | some (.scope id' v n) => id' == id && v == 0 && n == 0
    | _ => false

/-- the scan of one instruction at `pc` -/
def shapeAtK (get : Nat → Option Kind) (size : Nat) (pc : Nat) : Kind → Bool
  | .call t => decide (0 ≤ t) && isScopeK (get t.toNat)
  | .jump t => decide ((pc : Int) < t) && !isScopeK (get t.toNat)
  | .branch t => !(decide (0 ≤ t) && isScopeK (get t.toNat))
  | .scope _ _ _ => pc == 0 || isJumpK (get (pc - 1))
  | .var id => !deadK get size id
  | .callrec => false
  | _ => true

/-- static scan of code BEFORE `optimizeTailRec`: the code is not empty, starts with a `scope` and
    ends with `ret`; every `call` operand is the pc of a `scope`; a `scope` other than the first is
    preceded by a `jump` and is not the target of a jump or fork (a function entry is only reached by
    a call); every `jump` goes forward; no load / store / append / forklabel names a scope that has
    neither variables nor arguments; there is no `callrec` yet -/
def shapeCheckK (get : Nat → Option Kind) (size : Nat) : Bool :=
  decide (0 < size) && (get (size - 1) == some .ret) && isScopeK (get 0) &&
  (List.range size).all fun pc =>
    match get pc with
    | none => true
    | some k => shapeAtK get size pc k

/-- no `pushpc`, no `callpc`: the program creates and calls no closure -/
def closureFreeK (get : Nat → Option Kind) (size : Nat) : Bool :=
  (List.range size).all fun pc => get pc != some .clo

def tailShapeCheck (c : Array Instr) : Bool := shapeCheckK (fun i => (c[i]?).map kindOf) c.size
def closureFree (c : Array Instr) : Bool := closureFreeK (fun i => (c[i]?).map kindOf) c.size

/-- THE static hypothesis of the simulation theorem -/
def tailWfCheck (c : Array Instr) : Bool := tailShapeCheck c && closureFree c

/-- no `callrec` in the code AFTER the pass: every rewritten call became a jump -/
def noCallrec (c : Array Instr) : Bool :=
  (List.range c.size).all fun pc => (c[pc]?).map kindOf != some .callrec

/-! ## the same scans on a dumped instruction list -/

/-- the dump of an instruction for the scans: `OptVM.view` plus the `[id, index]` operand of the four
    variable instructions (which `VerifCodes` dumps as `ints`) -/
def viewT (i : Instr) : Opt.Instr :=
  { view i with
    ints := match i with
      | .scope a b c => [a, b, c]
      | .load a b | .store a b | .append a b | .forklabel a b => [a, b]
      | _ => [] }

/-- the kind of a dumped instruction; an operand of an unexpected shape makes it `callrec`, which the
    scan rejects -/
def kindOfView (i : Opt.Instr) : Kind :=
  if i.op == "scope" then
    match i.ints with
    | [a, b, c] => .scope a b c
    | _ => .callrec
  else if i.op == "call" then
    match i.tgt with
    | some t => .call t
    | none => .other                 -- a native call
  else if i.op == "jump" then
    match i.tgt with
    | some t => .jump t
    | none => .callrec
  else if i.op == "fork" || i.op == "forktrybegin" || i.op == "forkalt" || i.op == "jumpifnot" then
    match i.tgt with
    | some t => .branch t
    | none => .callrec
  else if i.op == "load" || i.op == "store" || i.op == "append" || i.op == "forklabel" then
    match i.ints with
    | [a, _] => .var a
    | _ => .callrec
  else if i.op == "ret" then .ret
  else if i.op == "pushpc" || i.op == "callpc" then .clo
  else if i.op == "callrec" then .callrec
  else .other

def tailShapeCheckView (c : Array Opt.Instr) : Bool := shapeCheckK (fun i => (c[i]?).map kindOfView) c.size
def closureFreeView (c : Array Opt.Instr) : Bool := closureFreeK (fun i => (c[i]?).map kindOfView) c.size
def noCallrecView (c : Array Opt.Instr) : Bool :=
  (List.range c.size).all fun pc => (c[pc]?).map kindOfView != some .callrec

end Gojq.TailVM

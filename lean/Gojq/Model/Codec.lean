/-
  C13 — native codecs of func.go as total functions over byte lists.  Core Lean only.

    explode / implode      funcExplode (`for _, r := range s`) / funcImplode (`WriteRune`)
    splitOn / join         funcSplit (1-argument path: `strings.Split`) / funcJoin on strings
    b64enc / b64dec        funcToBase64 (`base64.StdEncoding`) /
                           funcToBase64d (cut at the first `=`, then `RawStdEncoding.DecodeString`)
    uriEnc / uriDec        funcToURI (`url.QueryEscape`, then `+` ↦ `%20`) /
                           funcToURId (`+` ↦ `%2B`, then `url.QueryUnescape`)
    intToString / parseIntString   funcToString on integers / funcToNumber on integer-shaped strings

  All byte tests are written on `UInt8.toNat` so that `omega` applies in the proofs.
-/
import Gojq.Model.Utf8
namespace Gojq.Codec
open Gojq

/-! ## explode / implode -/

/-- `explode`: one code point per decoded rune; every invalid byte yields U+FFFD. -/
def explode (s : Bytes) : List Nat := Utf8.runes s

/-- Unicode scalar value: what `explode` yields on valid UTF-8. -/
def isScalar (r : Nat) : Bool := r ≤ 0x10FFFF && !(0xD800 ≤ r && r ≤ 0xDFFF)

/-- one element of funcImplode: `0 <= r && r <= utf8.MaxRune` ? `WriteRune(r)` : `WriteRune(RuneError)`.
    funcImplode rejects NOTHING among integers: negative and too large numbers are replaced by the
    test above, surrogates by `WriteRune` itself — both silently become U+FFFD. -/
def implodeRune (r : Int) : Bytes :=
  if 0 ≤ r ∧ r ≤ (Utf8.maxRune : Int) then Utf8.encodeRune r.toNat else Utf8.encodeRune Utf8.runeError

/-- `implode` on a list of integers (the only error of funcImplode is a non-number element). -/
def implode (rs : List Int) : Bytes := rs.flatMap implodeRune

/-! ## split / join -/

/-- `strings.HasPrefix s sep` -/
def hasPrefix : Bytes → Bytes → Bool
  | [], _ => true
  | _ :: _, [] => false
  | a :: as, b :: bs => a.toNat == b.toNat && hasPrefix as bs

/-- `strings.Split` for a non-empty separator: leftmost, non-overlapping occurrences.
    `acc` is the current piece, reversed.  Every step consumes at least one byte, so
    `fuel = length + 1` is never exhausted; the fuel-0 answer keeps the function total. -/
def splitAux (sep : Bytes) : Nat → Bytes → Bytes → List Bytes
  | 0, acc, s => [acc.reverse ++ s]
  | _ + 1, acc, [] => [acc.reverse]
  | fuel + 1, acc, c :: cs =>
    if hasPrefix sep (c :: cs) then acc.reverse :: splitAux sep fuel [] ((c :: cs).drop sep.length)
    else splitAux sep fuel (c :: acc) cs

/-- `strings.Split(s, "")`: one piece per decoded UTF-8 sequence (invalid bytes one by one). -/
def splitEmptyAux : Nat → Bytes → List Bytes
  | 0, _ => []
  | _, [] => []
  | fuel + 1, s =>
    let (_, w, _) := Utf8.decodeRune s
    s.take (max w 1) :: splitEmptyAux fuel (s.drop (max w 1))

def splitOn (sep s : Bytes) : List Bytes :=
  if sep.isEmpty then splitEmptyAux s.length s else splitAux sep (s.length + 1) [] s

/-- funcJoin on an array of strings: `"" + x0 + sep + x1 + …` -/
def join (sep : Bytes) : List Bytes → Bytes
  | [] => []
  | [x] => x
  | x :: y :: rest => x ++ sep ++ join sep (y :: rest)

/-! ## base64 -/

/-- the standard alphabet, by index 0..63 -/
def b64chr (n : Nat) : UInt8 :=
  UInt8.ofNat (if n < 26 then 65 + n else if n < 52 then 71 + n else if n < 62 then n - 4
               else if n = 62 then 43 else 47)

/-- inverse alphabet lookup (`decodeMap`); `none` = not in the alphabet -/
def b64idx (c : UInt8) : Option Nat :=
  let x := c.toNat
  if 65 ≤ x ∧ x ≤ 90 then some (x - 65)
  else if 97 ≤ x ∧ x ≤ 122 then some (x - 71)
  else if 48 ≤ x ∧ x ≤ 57 then some (x + 4)
  else if x = 43 then some 62
  else if x = 47 then some 63
  else none

/-- `base64.StdEncoding.EncodeToString`: 3 bytes ↦ 4 characters, `=` padding. -/
def b64enc : Bytes → Bytes
  | [] => []
  | [a] =>
    let x := a.toNat
    [b64chr (x / 4), b64chr (x % 4 * 16), 61, 61]
  | [a, b] =>
    let x := a.toNat; let y := b.toNat
    [b64chr (x / 4), b64chr (x % 4 * 16 + y / 16), b64chr (y % 16 * 4), 61]
  | a :: b :: c :: rest =>
    let x := a.toNat; let y := b.toNat; let z := c.toNat
    b64chr (x / 4) :: b64chr (x % 4 * 16 + y / 16) :: b64chr (y % 16 * 4 + z / 64) :: b64chr (z % 64)
      :: b64enc rest

/-- `RawStdEncoding` decoding of a string already freed of CR/LF: groups of four, a final group
    of two or three characters, never of one; non-strict (left-over bits are dropped). -/
def b64decRaw : Bytes → Option Bytes
  | [] => some []
  | [_] => none
  | [c0, c1] =>
    match b64idx c0, b64idx c1 with
    | some i0, some i1 => some [UInt8.ofNat (i0 * 4 + i1 / 16)]
    | _, _ => none
  | [c0, c1, c2] =>
    match b64idx c0, b64idx c1, b64idx c2 with
    | some i0, some i1, some i2 => some [UInt8.ofNat (i0 * 4 + i1 / 16), UInt8.ofNat (i1 % 16 * 16 + i2 / 4)]
    | _, _, _ => none
  | c0 :: c1 :: c2 :: c3 :: rest =>
    match b64idx c0, b64idx c1, b64idx c2, b64idx c3, b64decRaw rest with
    | some i0, some i1, some i2, some i3, some r =>
      some (UInt8.ofNat (i0 * 4 + i1 / 16) :: UInt8.ofNat (i1 % 16 * 16 + i2 / 4) :: UInt8.ofNat (i2 % 4 * 64 + i3) :: r)
    | _, _, _, _, _ => none

/-- funcToBase64d: `x[:IndexRune(x,'=')]`, then `RawStdEncoding.DecodeString`, whose decoder
    skips `\r` and `\n` wherever they occur. `none` = the `@base64d` error. -/
def b64dec (x : Bytes) : Option Bytes :=
  b64decRaw ((x.takeWhile (fun c => c.toNat != 61)).filter (fun c => c.toNat != 10 && c.toNat != 13))

/-! ## @uri / @urid -/

/-- the bytes `url.QueryEscape` keeps: ALPHA / DIGIT / `-` `_` `.` `~` -/
def unreserved (c : UInt8) : Bool :=
  let x := c.toNat
  (97 ≤ x && x ≤ 122) || (65 ≤ x && x ≤ 90) || (48 ≤ x && x ≤ 57) || x == 45 || x == 95 || x == 46 || x == 126

/-- upper-case hex digit -/
def hexUp (n : Nat) : UInt8 := UInt8.ofNat (if n < 10 then 48 + n else 55 + n)

/-- `unhex`/`ishex` of net/url: both cases accepted -/
def unhex (c : UInt8) : Option Nat :=
  let x := c.toNat
  if 48 ≤ x ∧ x ≤ 57 then some (x - 48)
  else if 97 ≤ x ∧ x ≤ 102 then some (x - 87)
  else if 65 ≤ x ∧ x ≤ 70 then some (x - 55)
  else none

/-- funcToURI: QueryEscape writes space as `+` and escapes a real `+`; the following
    `ReplaceAll("+", "%20")` therefore makes space `%20`, i.e. the general `%XX` rule. -/
def uriEnc : Bytes → Bytes
  | [] => []
  | c :: rest =>
    if unreserved c then c :: uriEnc rest
    else 37 :: hexUp (c.toNat / 16) :: hexUp (c.toNat % 16) :: uriEnc rest

/-- funcToURId: `+` is protected as `%2B` first, so it decodes to itself; `%` must be followed by
    two hex digits (else `none` = the `@urid` error); every other byte is copied. Fuel = length. -/
def uriDecAux : Nat → Bytes → Option Bytes
  | _, [] => some []
  | 0, _ :: _ => none
  | fuel + 1, c :: rest =>
    if c.toNat = 37 then
      match rest with
      | h :: l :: rest' =>
        match unhex h, unhex l, uriDecAux fuel rest' with
        | some a, some b, some r => some (UInt8.ofNat (a * 16 + b) :: r)
        | _, _, _ => none
      | _ => none
    else
      match uriDecAux fuel rest with
      | some r => some (c :: r)
      | none => none

def uriDec (s : Bytes) : Option Bytes := uriDecAux s.length s

/-! ## tostring / tonumber on integers -/

/-- decimal digits of `n`, most significant first, pushed in front of `acc` -/
def digitsAux : Nat → Nat → Bytes → Bytes
  | 0, _, acc => acc
  | fuel + 1, n, acc =>
    let acc' := UInt8.ofNat (48 + n % 10) :: acc
    if n < 10 then acc' else digitsAux fuel (n / 10) acc'

def natToString (n : Nat) : Bytes := digitsAux (n + 1) n []

/-- `tostring` / `tojson` of an integer (int or *big.Int): `strconv.Itoa` / `big.Int.String` -/
def intToString (z : Int) : Bytes :=
  if z < 0 then 45 :: natToString z.natAbs else natToString z.natAbs

def parseNatAux : Bytes → Nat → Option Nat
  | [], acc => some acc
  | c :: cs, acc =>
    if 48 ≤ c.toNat ∧ c.toNat ≤ 57 then parseNatAux cs (acc * 10 + (c.toNat - 48)) else none

/-- one or more decimal digits (leading zeros allowed, as ParseInt / big.Int.SetString allow) -/
def parseNat : Bytes → Option Nat
  | [] => none
  | s => parseNatAux s 0

/-- `tonumber` on an integer-shaped string `[+-]?[0-9]+` (what `validNumber` accepts without
    `.`/exponent, and `parseNumber` turns into an int or *big.Int of that value).
    `none` = not integer-shaped (the real function may still accept it as a float literal). -/
def parseIntString : Bytes → Option Int
  | [] => none
  | c :: cs =>
    if c.toNat = 45 then (parseNat cs).map fun n => -(n : Int)
    else if c.toNat = 43 then (parseNat cs).map fun n => (n : Int)
    else (parseNat (c :: cs)).map fun n => (n : Int)

/-- characters a valid jq number literal is made of; a string with any other byte is an error -/
def numberChar (c : UInt8) : Bool :=
  let x := c.toNat
  (48 ≤ x && x ≤ 57) || x == 43 || x == 45 || x == 46 || x == 69 || x == 101

end Gojq.Codec

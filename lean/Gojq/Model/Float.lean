/-
  Software IEEE-754 binary64 over exact rationals (DESIGN §3.1).
  `Float` is opaque to Lean's kernel, so float64 values are the exact rationals they
  denote, and every correctly rounded Go operation (`+ - * /`, `float64(int)`) is
  "compute exactly, then `roundRat`".
-/
import Gojq.Model.Json
namespace Gojq

def pow2 (e : Int) : Rat := (2 : Rat) ^ e

/-- floor(log2 a) for a positive rational a = n/d -/
def ilog2 (a : Rat) : Int :=
  let n := a.num.toNat
  let d := a.den
  let e : Int := (Nat.log2 n : Int) - (Nat.log2 d : Int)
  -- 2^(e-1) < a < 2^(e+1); correct by one comparison
  if pow2 e ≤ a then e else e - 1

/-- round a non-negative rational to the nearest integer, ties to even -/
def roundHalfEven (m : Rat) : Int :=
  let f := m.floor
  let r := m - (f : Rat)
  if r < (1 : Rat) / 2 then f
  else if (1 : Rat) / 2 < r then f + 1
  else if f % 2 == 0 then f else f + 1

/-- exponent of the unit in the last place for a magnitude with floor(log2) = e -/
def ulpExp (e : Int) : Int := if e < -1022 then -1074 else e - 52

/-- round-to-nearest-even of an exact rational to float64 -/
def roundRat (q : Rat) : Num :=
  if q == 0 then .flt 0 else
  let neg := q < 0
  let a := if neg then -q else q
  let u := ulpExp (ilog2 a)
  let m := roundHalfEven (a / pow2 u)
  let r : Rat := (m : Rat) * pow2 u
  if pow2 1024 ≤ r then .inf neg
  else if m == 0 then (if neg then .nzero else .flt 0)
  else .flt (if neg then -r else r)

/-- `float64(z)` for an integer of any size (`float64(int)` and `bigToFloat`) -/
def roundInt (z : Int) : Num := roundRat (z : Rat)

/-- is the rational exactly representable as a finite float64 -/
def Rat.isF64 (q : Rat) : Bool := roundRat q == .flt q

/-- decode float64 bits -/
def Num.ofBits (b : UInt64) : Num :=
  let n := b.toNat
  let neg := n / 2^63 == 1
  let ex : Nat := (n / 2^52) % 2048
  let mant : Nat := n % 2^52
  if ex == 2047 then (if mant == 0 then .inf neg else .nan)
  else
    let mag : Rat :=
      if ex == 0 then ((mant : Int) : Rat) * pow2 (-1074)
      else (((mant + 2^52 : Nat) : Int) : Rat) * pow2 ((ex : Int) - 1075)
    if mag == 0 then (if neg then .nzero else .flt 0)
    else .flt (if neg then -mag else mag)

/-- encode a float-carrier `Num` to float64 bits (`int` is not a float carrier: returns none).
    NaN is canonicalised to 0x7ff8000000000001 (Go's `math.NaN()`). -/
def Num.toBits? : Num → Option UInt64
  | .int _ => none
  | .nan => some 0x7ff8000000000001
  | .inf false => some 0x7ff0000000000000
  | .inf true => some 0xfff0000000000000
  | .nzero => some 0x8000000000000000
  | .flt q =>
    if q == 0 then some 0 else
    let neg := q < 0
    let a := if neg then -q else q
    let e := ilog2 a
    let s : Nat := if neg then 2^63 else 0
    if e < -1022 then
      let mant := (a / pow2 (-1074)).floor.toNat
      some (UInt64.ofNat (s + mant))
    else
      let m := (a / pow2 (e - 52)).floor.toNat
      some (UInt64.ofNat (s + ((e + 1023).toNat) * 2^52 + (m - 2^52)))

/-- the float64 a `Num` converts to (`toFloat`) -/
def Num.toFlt : Num → Num
  | .int z => roundInt z
  | n => n

/-- exact rational value of a finite number -/
def Num.toRat? : Num → Option Rat
  | .int z => some z
  | .flt q => some q
  | .nzero => some 0
  | _ => none

def Num.isFinite : Num → Bool
  | .nan => false | .inf _ => false | _ => true

end Gojq

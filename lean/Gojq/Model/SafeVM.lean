/-
  C08 — a static checker for bytecode, in the style of proof-carrying code.  Core Lean only.

  `safeCheck : Array VM.Instr → Bool` is an abstract interpretation of a code array.  It INFERS an
  annotation (per pc: the number of data-stack entries the current function activation owns at
  that pc) by forward propagation from the function entries, and then VERIFIES the annotation
  locally: every successor of every annotated pc — fall-through, jump target, fork target reached
  when the fork is backtracked into — carries exactly the height the instruction produces.  Only the
  verifier matters for soundness (Proofs/SafeVM*.lean): `verify sh n ann = true` for SOME `ann`
  implies that no run from `execute`'s initial state reaches the covered panic sites.

  The checker never looks at constants, so it is defined on `Shape` (an instruction without its
  JSON operand).  `shapeV` reads the same shape off the DUMPED instruction syntax (`Opt.Instr`, what
  `VerifCodes` prints and the C04 driver parses), `viewS` is the dump of an interpreter instruction,
  and `shapeV (viewS i) = shape i` (Proofs/SafeVMView.lean), so the check that the `safe` stream of
  the C04 check runs on every real program IS the hypothesis of the theorem.
-/
import Gojq.Model.VM
import Gojq.Model.Optimize
namespace Gojq.SafeVM
open Gojq Gojq.VM

/-! ## shapes -/

/-- an instruction without its JSON constant -/
inductive Shape where
  | nop | push | pop | dup | const
  | load (id i : Int) | store (id i : Int) | object (n : Int) | append (id i : Int)
  | fork (t : Int) | forktrybegin (t : Int) | forktryend | forkalt (t : Int) | forklabel (id i : Int)
  | backtrack | jump (t : Int) | jumpifnot (t : Int) | index | indexarray
  | call (t : Int) | callNative (kind : NativeKind) (argc : Int) | callrec (t : Int) | pushpc (t : Int) | callpc
  | scope (id vars nargs : Int) | ret | iter | expbegin | expend | pathbegin | pathend | bad
  deriving DecidableEq, Repr, Inhabited

def shape : Instr → Shape
  | .nop => .nop | .push _ => .push | .pop => .pop | .dup => .dup | .const _ => .const
  | .load a b => .load a b | .store a b => .store a b | .object n => .object n | .append a b => .append a b
  | .fork t => .fork t | .forktrybegin t => .forktrybegin t | .forktryend => .forktryend
  | .forkalt t => .forkalt t | .forklabel a b => .forklabel a b | .backtrack => .backtrack
  | .jump t => .jump t | .jumpifnot t => .jumpifnot t | .index _ => .index | .indexarray _ => .indexarray
  | .call t => .call t | .callNative k n => .callNative k n | .callrec t => .callrec t
  | .pushpc t => .pushpc t | .callpc => .callpc | .scope a b c => .scope a b c | .ret => .ret
  | .iter => .iter | .expbegin => .expbegin | .expend => .expend | .pathbegin => .pathbegin
  | .pathend => .pathend | .bad => .bad

def isScope : Shape → Bool
  | .scope _ _ _ => true
  | _ => false

/-! ## layer 1: data-stack heights, frames, fork discipline -/

/-- height (number of owned data-stack entries) with which the function whose `scope` instruction
    is at `t` is entered: its closure arguments and its input; the main program (pc 0) also finds
    the `nvars` variable values that `execute` pushed -/
def entryH (code : Array Shape) (nvars : Nat) (t : Nat) : Option Nat :=
  match code[t]? with
  | some (.scope _ _ nargs) =>
    if 0 ≤ nargs then some (nargs.toNat + 1 + (if t = 0 then nvars else 0)) else none
  | _ => none

/-- entry height of a call / callrec / pushpc operand -/
def entryHI (code : Array Shape) (nvars : Nat) (t : Int) : Option Nat :=
  if 0 ≤ t then entryH code nvars t.toNat else none

/-- the abstract transfer function: instruction `ins` at `pc` entered with `h` owned entries.
    `none` = rejected (a pop below the activation's own entries, an operand of the wrong form, …);
    `some succs` = the list of (pc, height) at which control may continue IN THIS ACTIVATION:
    fall-through, jump target, and for a fork-like instruction the target entered when the fork is
    backtracked into.  A call continues after the callee returns (every `ret` is checked to own
    exactly one entry, the result). -/
def step1 (code : Array Shape) (nvars : Nat) (pc : Nat) (h : Nat) : Shape → Option (List (Int × Nat))
  | .nop => some [((pc : Int) + 1, h)]
  | .push => some [((pc : Int) + 1, h + 1)]
  | .pop => if 1 ≤ h then some [((pc : Int) + 1, h - 1)] else none
  | .dup => if 1 ≤ h then some [((pc : Int) + 1, h + 1)] else none
  | .const => if 1 ≤ h then some [((pc : Int) + 1, h)] else none
  | .load _ _ => some [((pc : Int) + 1, h + 1)]
  | .store _ _ => if 1 ≤ h then some [((pc : Int) + 1, h - 1)] else none
  | .object n => if 2 * n.toNat ≤ h then some [((pc : Int) + 1, h - 2 * n.toNat + 1)] else none
  | .append _ _ => if 1 ≤ h then some [((pc : Int) + 1, h - 1)] else none
  | .fork t => some [((pc : Int) + 1, h), (t, h)]
  | .forktrybegin t => if 1 ≤ h then some [((pc : Int) + 1, h), (t, h)] else none
  | .forktryend => some [((pc : Int) + 1, h)]
  | .forkalt t => some [((pc : Int) + 1, h), (t, h)]
  | .forklabel _ _ => if 1 ≤ h then some [((pc : Int) + 1, h)] else none
  | .backtrack => some []
  | .jump t => some [(t, h)]
  | .jumpifnot t => if 1 ≤ h then some [((pc : Int) + 1, h - 1), (t, h - 1)] else none
  | .index => if 1 ≤ h then some [((pc : Int) + 1, h)] else none
  | .indexarray => if 1 ≤ h then some [((pc : Int) + 1, h)] else none
  | .call t =>
    match entryHI code nvars t with
    | some k => if k ≤ h then some [((pc : Int) + 1, h - k + 1)] else none
    | none => none
  | .callNative kind argc =>
    let need : Int := match kind with | .index => 2 | .slice => 3 | .getpath => 1 | .other => 0
    if need ≤ argc ∧ argc ≤ 32 ∧ argc.toNat + 1 ≤ h then some [((pc : Int) + 1, h - argc.toNat)] else none
  | .callrec t =>
    match entryHI code nvars t with
    | some k => if k = h then some [] else none
    | none => none
  | .pushpc t =>
    match entryHI code nvars t with
    | some k => if k = 1 then some [((pc : Int) + 1, h + 1)] else none
    | none => none
  | .callpc => if 2 ≤ h then some [((pc : Int) + 1, h - 1)] else none
  | .scope _ _ _ => some [((pc : Int) + 1, h)]
  | .ret => if h = 1 then some [] else none
  | .iter => if 1 ≤ h then some [((pc : Int) + 1, h)] else none
  | .expbegin => some [((pc : Int) + 1, h)]
  | .expend => some [((pc : Int) + 1, h)]
  | .pathbegin => if 1 ≤ h then some [((pc : Int) + 1, h)] else none
  | .pathend => if 2 ≤ h then some [((pc : Int) + 1, h - 1)] else none
  | .bad => none

abbrev Ann := Array (Option Nat)

/-- one successor is consistent with the annotation: in range, not a function entry (those are
    entered by call / callrec / callpc only), annotated with exactly the produced height -/
def succOK (code : Array Shape) (ann : Ann) (s : Int × Nat) : Bool :=
  decide (0 ≤ s.1) && decide (s.1.toNat < code.size) &&
  (match ann[s.1.toNat]? with | some (some h') => h' == s.2 | _ => false) &&
  (match code[s.1.toNat]? with | some i => !isScope i | none => false)

def verifyAt (code : Array Shape) (nvars : Nat) (ann : Ann) (pc : Nat) : Bool :=
  match code[pc]?, ann[pc]? with
  | some ins, some (some h) =>
    (if isScope ins then entryH code nvars pc == some h else true) &&
    (match step1 code nvars pc h ins with
     | none => false
     | some succs => succs.all (succOK code ann))
  | some ins, some none => !isScope ins
  | _, _ => false

/-- the verifier: the annotation has the size of the code, pc 0 is a function entry, the last
    instruction is `ret`, every function entry carries its entry height, every annotated pc is
    accepted by the transfer function and its successors carry the produced heights -/
def verify (code : Array Shape) (nvars : Nat) (ann : Ann) : Bool :=
  ann.size == code.size &&
  (match code[0]? with | some i => isScope i | none => false) &&
  (match code.size with
   | 0 => false
   | n + 1 => match code[n]? with | some .ret => true | _ => false) &&
  (List.range code.size).all (verifyAt code nvars ann)

/-! ### inference (not trusted: only `verify` of its result matters) -/

def inferLoop (code : Array Shape) (nvars : Nat) : Nat → List Nat → Ann → Ann
  | 0, _, ann => ann
  | _, [], ann => ann
  | fuel + 1, pc :: wl, ann =>
    match code[pc]?, ann[pc]? with
    | some ins, some (some h) =>
      match step1 code nvars pc h ins with
      | none => inferLoop code nvars fuel wl ann
      | some succs =>
        let r := succs.foldl (fun (acc : List Nat × Ann) (s : Int × Nat) =>
          if 0 ≤ s.1 then
            match acc.2[s.1.toNat]? with
            | some none => (s.1.toNat :: acc.1, acc.2.set! s.1.toNat (some s.2))
            | _ => acc
          else acc) (wl, ann)
        inferLoop code nvars fuel r.1 r.2
    | _, _ => inferLoop code nvars fuel wl ann

def infer (code : Array Shape) (nvars : Nat) : Ann :=
  let entries := (List.range code.size).filter fun pc => match code[pc]? with | some i => isScope i | none => false
  let ann0 : Ann := entries.foldl (fun a pc => a.set! pc (entryH code nvars pc)) (Array.replicate code.size none)
  inferLoop code nvars (2 * code.size + 2) entries ann0

def checkShapes (code : Array Shape) (nvars : Nat) : Bool := verify code nvars (infer code nvars)

/-- the checker, for a program compiled with `nvars` variables (`WithVariables`) -/
def safeCheckN (nvars : Nat) (c : Array Instr) : Bool := checkShapes (c.map shape) nvars

/-- the checker for a program compiled without variables -/
def safeCheck (c : Array Instr) : Bool := safeCheckN 0 c

/-! ## the same check on the dumped instruction syntax -/

def kindCode : NativeKind → Int
  | .other => 0 | .index => 1 | .slice => 2 | .getpath => 3

def kindOfCode (k : Int) : NativeKind :=
  if k = 1 then .index else if k = 2 then .slice else if k = 3 then .getpath else .other

/-- what `VerifCodes` dumps for an interpreter instruction, keeping every integer operand:
    `tgt` = the `int` operand, `ints` = the `[2]int` / `[3]int` operand, or for a native call
    `[kind, argc]`; the opcode name of a native call is "calln" (the dump prints `call|_|@name/argc`,
    which the driver's parser maps to "calln") -/
def viewS (i : Instr) : Opt.Instr :=
  match i with
  | .nop => { op := "nop" } | .push _ => { op := "push" } | .pop => { op := "pop" } | .dup => { op := "dup" }
  | .const _ => { op := "const" }
  | .load a b => { op := "load", ints := [a, b] } | .store a b => { op := "store", ints := [a, b] }
  | .object n => { op := "object", tgt := some n } | .append a b => { op := "append", ints := [a, b] }
  | .fork t => { op := "fork", tgt := some t } | .forktrybegin t => { op := "forktrybegin", tgt := some t }
  | .forktryend => { op := "forktryend" } | .forkalt t => { op := "forkalt", tgt := some t }
  | .forklabel a b => { op := "forklabel", ints := [a, b] } | .backtrack => { op := "backtrack" }
  | .jump t => { op := "jump", tgt := some t } | .jumpifnot t => { op := "jumpifnot", tgt := some t }
  | .index _ => { op := "index" } | .indexarray _ => { op := "indexarray" }
  | .call t => { op := "call", tgt := some t }
  | .callNative k n => { op := "calln", ints := [kindCode k, n] }
  | .callrec t => { op := "callrec", tgt := some t } | .pushpc t => { op := "pushpc", tgt := some t }
  | .callpc => { op := "callpc" } | .scope a b c => { op := "scope", ints := [a, b, c] }
  | .ret => { op := "ret" } | .iter => { op := "iter" } | .expbegin => { op := "expbegin" }
  | .expend => { op := "expend" } | .pathbegin => { op := "pathbegin" } | .pathend => { op := "pathend" }
  | .bad => { op := "bad" }

/-- the shape of a dumped instruction; anything unexpected is `bad` (rejected) -/
def shapeV (i : Opt.Instr) : Shape :=
  match i.op, i.tgt, i.ints with
  | "nop", _, _ => .nop | "push", _, _ => .push | "pop", _, _ => .pop | "dup", _, _ => .dup
  | "const", _, _ => .const
  | "load", _, [a, b] => .load a b | "store", _, [a, b] => .store a b
  | "object", some n, _ => .object n | "append", _, [a, b] => .append a b
  | "fork", some t, _ => .fork t | "forktrybegin", some t, _ => .forktrybegin t
  | "forktryend", _, _ => .forktryend | "forkalt", some t, _ => .forkalt t
  | "forklabel", _, [a, b] => .forklabel a b | "backtrack", _, _ => .backtrack
  | "jump", some t, _ => .jump t | "jumpifnot", some t, _ => .jumpifnot t
  | "index", _, _ => .index | "indexarray", _, _ => .indexarray
  | "call", some t, _ => .call t
  | "calln", _, [k, n] => .callNative (kindOfCode k) n
  | "callrec", some t, _ => .callrec t | "pushpc", some t, _ => .pushpc t
  | "callpc", _, _ => .callpc | "scope", _, [a, b, c] => .scope a b c
  | "ret", _, _ => .ret | "iter", _, _ => .iter | "expbegin", _, _ => .expbegin
  | "expend", _, _ => .expend | "pathbegin", _, _ => .pathbegin | "pathend", _, _ => .pathend
  | _, _, _ => .bad

/-- the checker on a dumped instruction list (what the `safe` stream of the C04 check runs) -/
def safeCheckViewN (nvars : Nat) (c : Array Opt.Instr) : Bool := checkShapes (c.map shapeV) nvars
def safeCheckView (c : Array Opt.Instr) : Bool := safeCheckViewN 0 c

/-! ### parsing one token `op|tgt|arg` of the dump (used by the driver; glue, like `parseInstr`) -/

def nativeKindCode (name : String) : Int :=
  if name == "_index" then 1 else if name == "_slice" then 2 else if name == "getpath" then 3 else 0

def parseDump (tok : String) : Option Opt.Instr :=
  match tok.splitOn "|" with
  | [op, tgt, arg] =>
    if op == "call" && arg.startsWith "@" then
      -- `@name/argc`
      match ((arg.drop 1).toString).splitOn "/" with
      | [name, argc] =>
        match argc.toInt? with
        | some n => some { op := "calln", arg := arg, ints := [nativeKindCode name, n] }
        | none => none
      | _ => none
    else
      some { op := op, tgt := if tgt == "_" then none else tgt.toInt?, arg := arg,
             ints := if arg.startsWith "v" || arg == "_" then [] else Opt.parseInts arg }
  | _ => none

/-- a diagnostic for the driver: the first pc the verifier rejects -/
def firstBad (code : Array Shape) (nvars : Nat) : Option Nat :=
  let ann := infer code nvars
  (List.range code.size).find? fun pc => !verifyAt code nvars ann pc

end Gojq.SafeVM

/-
  C08 — a static checker for bytecode, in the style of proof-carrying code.  Core Lean only.

  `safeCheck : Array VM.Instr → Bool` (defined at the end of Model/SafeVM2.lean: this layer AND the
  kind/frame layer there) is an abstract interpretation of a code array.  This layer INFERS an
  annotation (per pc: a lower bound on the number of data-stack entries the current function
  activation owns at that pc, whether a fork is surely pending, the number of open `pathbegin`s) by
  forward propagation from the function entries, and then VERIFIES the annotation locally: every
  successor of every annotated pc — fall-through, jump target, fork target reached when the fork is
  backtracked into — is annotated with no more than the instruction produces.  Only the
  verifier matters for soundness (Proofs/SafeVM*.lean): `verify sh n ann = true` for SOME `ann`
  implies that no run from `execute`'s initial state reaches the covered panic sites.

  The checker never looks at constants, so it is defined on `Shape` (an instruction without its
  JSON operand).  `shapeV` reads the same shape off the DUMPED instruction syntax (`Opt.Instr`, what
  `VerifCodes` prints and the C04 driver parses), `viewS` is the dump of an interpreter instruction,
  and `shapeV (viewS i) = shape i` (Proofs/SafeVMDump.lean), so the check that the `safe` stream of
  the C04 check runs on every real program IS the hypothesis of the theorem.
-/
import Gojq.Model.VM
import Gojq.Model.Optimize
namespace Gojq.SafeVM
open Gojq Gojq.VM

/-! ## shapes -/

/-- an instruction without its JSON constant -/
inductive Shape where
  | nop | push (arr : Bool) | pop | dup | const
  | load (id i : Int) | store (id i : Int) | object (n : Int) | append (id i : Int)
  | fork (t : Int) | forktrybegin (t : Int) | forktryend | forkalt (t : Int) | forklabel (id i : Int)
  | backtrack | jump (t : Int) | jumpifnot (t : Int) | index (nn : Bool) | indexarray (nn : Bool)
  | call (t : Int) | callNative (kind : NativeKind) (argc : Int) | callrec (t : Int) | pushpc (t : Int) | callpc
  | scope (id vars nargs : Int) | ret | iter | expbegin | expend | pathbegin | pathend | bad
  deriving DecidableEq, Repr, Inhabited

/-- the constant key of `opindex` is not `nil` (a `pathValue` with a nil path is the marker that
    `pathbegin` pushes) -/
def nonNull : JV → Bool
  | .null => false
  | _ => true

/-- the constant is an array (the accumulator of `[q]` starts as `push []`) -/
def isArrJV : JV → Bool
  | .arr _ => true
  | _ => false

def shape : Instr → Shape
  | .nop => .nop | .push v => .push (isArrJV v) | .pop => .pop | .dup => .dup | .const _ => .const
  | .load a b => .load a b | .store a b => .store a b | .object n => .object n | .append a b => .append a b
  | .fork t => .fork t | .forktrybegin t => .forktrybegin t | .forktryend => .forktryend
  | .forkalt t => .forkalt t | .forklabel a b => .forklabel a b | .backtrack => .backtrack
  | .jump t => .jump t | .jumpifnot t => .jumpifnot t | .index k => .index (nonNull k) | .indexarray k => .indexarray (nonNull k)
  | .call t => .call t | .callNative k n => .callNative k n | .callrec t => .callrec t
  | .pushpc t => .pushpc t | .callpc => .callpc | .scope a b c => .scope a b c | .ret => .ret
  | .iter => .iter | .expbegin => .expbegin | .expend => .expend | .pathbegin => .pathbegin
  | .pathend => .pathend | .bad => .bad

def isScope : Shape → Bool
  | .scope _ _ _ => true
  | _ => false

/-! ## layer 1: data-stack heights, frames, fork discipline, variable-slot ranges -/

/-- the `(id, number of variable slots)` of every `scope` instruction, in code order -/
def scopeTab (code : Array Shape) : List (Int × Nat) :=
  code.toList.filterMap fun
    | .scope id vars _ => some (id, vars.toNat)
    | _ => none

/-- a variable operand `[id, i]` is in range: scope `id` exists and has more than `i` slots -/
def slotOK (tab : List (Int × Nat)) (id i : Int) : Bool :=
  match tab.lookup id with
  | some n => decide (0 ≤ i) && decide (i.toNat < n)
  | none => false

/-- height (number of owned data-stack entries) with which the function whose `scope` instruction
    is at `t` is entered: its closure arguments and its input; the main program (pc 0) also finds
    the `nvars` variable values that `execute` pushed -/
def entryH (code : Array Shape) (nvars : Nat) (t : Nat) : Option Nat :=
  match code[t]? with
  | some (.scope _ _ nargs) =>
    if 0 ≤ nargs then some (nargs.toNat + 1 + (if t = 0 then nvars else 0)) else none
  | _ => none

/-- entry height of a call / callrec / pushpc operand -/
def entryHI (code : Array Shape) (nvars : Nat) (t : Int) : Option Nat :=
  if 0 ≤ t then entryH code nvars t.toNat else none

/-- arguments the path-tracking tail of a native call reads: `args[1]` for `_index`, `args[2]` for
    `_slice`, `args[0]` for `getpath` -/
def nativeNeed : NativeKind → Int
  | .index => 2 | .slice => 3 | .getpath => 1 | .other => 0

/-- the abstract state at a pc: `h` = number of data-stack entries the current activation owns;
    `pend` = a fork is certainly pending (pushed earlier on every path to this pc in normal mode and
    not yet backtracked into).  `pend` is only needed for a `forklabel` executed with `h = 0` (the
    hand-written `_modify`): re-entered after an error it pops twice, which is harmless only if it
    cannot be the oldest fork. -/
structure Abs where
  h : Nat
  pend : Bool
  /-- number of `pathbegin`s of the current activation not yet closed by `pathend` (a lower bound on
      the segments of the paths stack the activation owns) -/
  pd : Nat := 0
  deriving DecidableEq, Repr, Inhabited

/-- the abstract transfer function: instruction `ins` at `pc` entered in abstract state `a`.
    `none` = rejected (a pop below the activation's own entries, an operand of the wrong form, …);
    `some succs` = the list of (pc, state) at which control may continue IN THIS ACTIVATION:
    fall-through, jump target, and for a fork-like instruction the target entered when the fork is
    backtracked into.  A call continues after the callee returns (every `ret` is checked to own
    exactly one entry, the result). -/
def step1 (code : Array Shape) (tab : List (Int × Nat)) (nvars : Nat) (pc : Nat) (a : Abs) : Shape → Option (List (Int × Abs))
  | .nop => some [((pc : Int) + 1, a)]
  | .push _ => some [((pc : Int) + 1, { a with h := a.h + 1 })]
  | .pop => if 1 ≤ a.h then some [((pc : Int) + 1, { a with h := a.h - 1 })] else none
  | .dup => if 1 ≤ a.h then some [((pc : Int) + 1, { a with h := a.h + 1 })] else none
  | .const => if 1 ≤ a.h then some [((pc : Int) + 1, a)] else none
  | .load id i => if slotOK tab id i then some [((pc : Int) + 1, { a with h := a.h + 1 })] else none
  | .store id i => if 1 ≤ a.h ∧ slotOK tab id i = true then some [((pc : Int) + 1, { a with h := a.h - 1 })] else none
  | .object n => if 2 * n.toNat ≤ a.h then some [((pc : Int) + 1, { a with h := a.h - 2 * n.toNat + 1 })] else none
  | .append id i => if 1 ≤ a.h ∧ slotOK tab id i = true then some [((pc : Int) + 1, { a with h := a.h - 1 })] else none
  | .fork t => some [((pc : Int) + 1, { a with pend := true }), (t, a)]
  | .forktrybegin t => if 1 ≤ a.h then some [((pc : Int) + 1, { a with pend := true }), (t, a)] else none
  | .forktryend => some [((pc : Int) + 1, { a with pend := true })]
  | .forkalt t => some [((pc : Int) + 1, { a with pend := true }), (t, a)]
  | .forklabel id i => if (1 ≤ a.h ∨ a.pend = true) ∧ slotOK tab id i = true then some [((pc : Int) + 1, { a with pend := true })] else none
  | .backtrack => some []
  | .jump t => some [(t, a)]
  | .jumpifnot t => if 1 ≤ a.h then some [((pc : Int) + 1, { a with h := a.h - 1 }), (t, { a with h := a.h - 1 })] else none
  | .index nn => if 1 ≤ a.h ∧ nn = true then some [((pc : Int) + 1, a)] else none
  | .indexarray nn => if 1 ≤ a.h ∧ nn = true then some [((pc : Int) + 1, a)] else none
  | .call t =>
    match entryHI code nvars t with
    | some k => if k ≤ a.h then some [((pc : Int) + 1, { a with h := a.h - k + 1 })] else none
    | none => none
  | .callNative kind argc =>
    if nativeNeed kind ≤ argc ∧ argc ≤ 32 ∧ argc.toNat + 1 ≤ a.h then some [((pc : Int) + 1, { a with h := a.h - argc.toNat })] else none
  | .callrec t =>
    match entryHI code nvars t with
    | some k => if k = a.h then some [] else none
    | none => none
  | .pushpc t =>
    match entryHI code nvars t with
    | some k => if k = 1 then some [((pc : Int) + 1, { a with h := a.h + 1 })] else none
    | none => none
  | .callpc => if 2 ≤ a.h then some [((pc : Int) + 1, { a with h := a.h - 1 })] else none
  | .scope id vars _ => if 0 ≤ vars ∧ tab.lookup id = some vars.toNat then some [((pc : Int) + 1, a)] else none
  | .ret => if a.h = 1 then some [] else none
  | .iter => if 1 ≤ a.h then some [((pc : Int) + 1, a)] else none
  | .expbegin => some [((pc : Int) + 1, a)]
  | .expend => some [((pc : Int) + 1, a)]
  | .pathbegin => if 1 ≤ a.h then some [((pc : Int) + 1, { a with pd := a.pd + 1 })] else none
  | .pathend => if 2 ≤ a.h ∧ 1 ≤ a.pd then some [((pc : Int) + 1, { a with h := a.h - 1, pd := a.pd - 1 })] else none
  | .bad => none

abbrev Ann := Array (Option Abs)

/-- the annotation `b` at a successor accepts the produced state `s`: it relies on at most the
    produced number of owned entries (heights are lower bounds; they differ only after the
    hand-written `load; call _break` of `_modify`, which never falls through), and it claims a
    pending fork only if one is produced -/
def Abs.accepts (b s : Abs) : Bool := decide (b.h ≤ s.h) && (!b.pend || s.pend) && decide (b.pd ≤ s.pd)

/-- one successor is consistent with the annotation: in range, not a function entry (those are
    entered by call / callrec / callpc only), annotated with a state that accepts the produced one -/
def succOK (code : Array Shape) (ann : Ann) (s : Int × Abs) : Bool :=
  decide (0 ≤ s.1) && decide (s.1.toNat < code.size) &&
  (match ann[s.1.toNat]? with | some (some b) => b.accepts s.2 | _ => false) &&
  (match code[s.1.toNat]? with | some i => !isScope i | none => false)

/-- the annotation of a function entry: its entry height, no fork known to be pending -/
def entryAbs (code : Array Shape) (nvars : Nat) (pc : Nat) : Option Abs :=
  (entryH code nvars pc).map fun h => { h := h, pend := false, pd := 0 }

def verifyAt (code : Array Shape) (tab : List (Int × Nat)) (nvars : Nat) (ann : Ann) (pc : Nat) : Bool :=
  match code[pc]?, ann[pc]? with
  | some ins, some (some a) =>
    (if isScope ins then entryAbs code nvars pc == some a else true) &&
    (match step1 code tab nvars pc a ins with
     | none => false
     | some succs => succs.all (succOK code ann))
  | some ins, some none => !isScope ins
  | _, _ => false

/-- the verifier: the annotation has the size of the code, pc 0 is a function entry without closure
    parameters, the last instruction is `ret`, every function entry carries its entry state, every
    annotated pc is accepted by the transfer function and its successors carry the produced states -/
def verify (code : Array Shape) (nvars : Nat) (ann : Ann) : Bool :=
  ann.size == code.size &&
  (entryH code nvars 0 == some (nvars + 1)) &&
  (match code.size with
   | 0 => false
   | n + 1 => match code[n]? with | some .ret => true | _ => false) &&
  (List.range code.size).all (verifyAt code (scopeTab code) nvars ann)

/-! ### inference (not trusted: only `verify` of its result matters) -/

def inferLoop (code : Array Shape) (tab : List (Int × Nat)) (nvars : Nat) : Nat → List Nat → Ann → Ann
  | 0, _, ann => ann
  | _, [], ann => ann
  | fuel + 1, pc :: wl, ann =>
    match code[pc]?, ann[pc]? with
    | some ins, some (some a) =>
      match step1 code tab nvars pc a ins with
      | none => inferLoop code tab nvars fuel wl ann
      | some succs =>
        let r := succs.foldl (fun (acc : List Nat × Ann) (s : Int × Abs) =>
          if 0 ≤ s.1 then
            match acc.2[s.1.toNat]? with
            | some none => (s.1.toNat :: acc.1, acc.2.set! s.1.toNat (some s.2))
            | some (some b) =>
              -- meet (a join point reached with fewer owned entries / without a pending fork): revisit
              if b.accepts s.2 then acc
              else (s.1.toNat :: acc.1, acc.2.set! s.1.toNat (some { h := min b.h s.2.h, pend := b.pend && s.2.pend, pd := min b.pd s.2.pd }))
            | none => acc
          else acc) (wl, ann)
        inferLoop code tab nvars fuel r.1 r.2
    | _, _ => inferLoop code tab nvars fuel wl ann

def infer (code : Array Shape) (nvars : Nat) : Ann :=
  let entries := (List.range code.size).filter fun pc => match code[pc]? with | some i => isScope i | none => false
  let ann0 : Ann := entries.foldl (fun a pc => a.set! pc (entryAbs code nvars pc)) (Array.replicate code.size none)
  inferLoop code (scopeTab code) nvars (16 * code.size + 16) entries ann0

def checkShapes (code : Array Shape) (nvars : Nat) : Bool := verify code nvars (infer code nvars)

-- the checker itself (`safeCheck`, both layers) is defined at the end of Model/SafeVM2.lean

/-! ## what the theorems assume of the natives `_index` and `getpath` (null keys) -/

/-- the values along the `next` chain of a persistent stack (top first) -/
def chainVals (data : Array (Block V)) : Nat → Int → List V
  | 0, _ => []
  | n + 1, i =>
    if 0 ≤ i then
      match data[i.toNat]? with
      | some b => b.value :: chainVals data n b.next
      | none => []
    else []

/-- the data stack as a list, top first -/
def stackList (s : Stack V) : List V := chainVals s.data s.data.size s.index

/-- the answer `x` of the native call `ins` about to run on data stack `stk` respects null keys:
    `_index(x; k)` does not answer a VALUE when `k` is null, `getpath(p)` answers a value only for an
    array `p` without null — both natives raise an error otherwise (`expected … but got: null`).  In
    path-tracking mode the loop pushes `pathValue{k, …}` after such a call, and a nil path is the
    marker of `pathbegin`.  The callee value `x` is on top, `args[0]`, `args[1]` below it. -/
def keyOK (ins : Instr) (stk : List V) (x : ExtRec) : Prop :=
  match ins, x.call with
  | .callNative .index _, some (.val _) => ∃ x0 a0 a1 r, stk = x0 :: a0 :: a1 :: r ∧ a1 ≠ .jv .null
  | .callNative .getpath _, some (.val _) => ∃ x0 ps r, stk = x0 :: .jv (.arr ps) :: r ∧ JV.null ∉ ps
  | _, _ => True

/-! ## the same check on the dumped instruction syntax -/

def kindCode : NativeKind → Int
  | .other => 0 | .index => 1 | .slice => 2 | .getpath => 3

def kindOfCode (k : Int) : NativeKind :=
  if k = 1 then .index else if k = 2 then .slice else if k = 3 then .getpath else .other

/-- what `VerifCodes` dumps for an interpreter instruction, keeping every integer operand:
    `tgt` = the `int` operand, `ints` = the `[2]int` / `[3]int` operand, or for a native call
    `[kind, argc]`; the opcode name of a native call is "calln" (the dump prints `call|_|@name/argc`,
    which the driver's parser maps to "calln") -/
def viewS (i : Instr) : Opt.Instr :=
  match i with
  | .nop => { op := "nop" } | .push v => { op := "push", arg := if isArrJV v then "arr" else "_" } | .pop => { op := "pop" } | .dup => { op := "dup" }
  | .const _ => { op := "const" }
  | .load a b => { op := "load", ints := [a, b] } | .store a b => { op := "store", ints := [a, b] }
  | .object n => { op := "object", tgt := some n } | .append a b => { op := "append", ints := [a, b] }
  | .fork t => { op := "fork", tgt := some t } | .forktrybegin t => { op := "forktrybegin", tgt := some t }
  | .forktryend => { op := "forktryend" } | .forkalt t => { op := "forkalt", tgt := some t }
  | .forklabel a b => { op := "forklabel", ints := [a, b] } | .backtrack => { op := "backtrack" }
  | .jump t => { op := "jump", tgt := some t } | .jumpifnot t => { op := "jumpifnot", tgt := some t }
  | .index k => { op := "index", arg := if nonNull k then "_" else "null" }
  | .indexarray k => { op := "indexarray", arg := if nonNull k then "_" else "null" }
  | .call t => { op := "call", tgt := some t }
  | .callNative k n => { op := "calln", ints := [kindCode k, n] }
  | .callrec t => { op := "callrec", tgt := some t } | .pushpc t => { op := "pushpc", tgt := some t }
  | .callpc => { op := "callpc" } | .scope a b c => { op := "scope", ints := [a, b, c] }
  | .ret => { op := "ret" } | .iter => { op := "iter" } | .expbegin => { op := "expbegin" }
  | .expend => { op := "expend" } | .pathbegin => { op := "pathbegin" } | .pathend => { op := "pathend" }
  | .bad => { op := "bad" }

/-- the shape of a dumped instruction; anything unexpected is `bad` (rejected) -/
def shapeV (i : Opt.Instr) : Shape :=
  if i.op == "push" then .push (i.arg == "arr") else
  if i.op == "index" then .index (i.arg != "null") else
  if i.op == "indexarray" then .indexarray (i.arg != "null") else
  match i.op, i.tgt, i.ints with
  | "nop", _, _ => .nop | "pop", _, _ => .pop | "dup", _, _ => .dup
  | "const", _, _ => .const
  | "load", _, [a, b] => .load a b | "store", _, [a, b] => .store a b
  | "object", some n, _ => .object n | "append", _, [a, b] => .append a b
  | "fork", some t, _ => .fork t | "forktrybegin", some t, _ => .forktrybegin t
  | "forktryend", _, _ => .forktryend | "forkalt", some t, _ => .forkalt t
  | "forklabel", _, [a, b] => .forklabel a b | "backtrack", _, _ => .backtrack
  | "jump", some t, _ => .jump t | "jumpifnot", some t, _ => .jumpifnot t
  | "call", some t, _ => .call t
  | "calln", _, [k, n] => .callNative (kindOfCode k) n
  | "callrec", some t, _ => .callrec t | "pushpc", some t, _ => .pushpc t
  | "callpc", _, _ => .callpc | "scope", _, [a, b, c] => .scope a b c
  | "ret", _, _ => .ret | "iter", _, _ => .iter | "expbegin", _, _ => .expbegin
  | "expend", _, _ => .expend | "pathbegin", _, _ => .pathbegin | "pathend", _, _ => .pathend
  | _, _, _ => .bad

-- the checker on a dumped instruction list (`safeCheckView`) is defined at the end of Model/SafeVM2.lean

/-! ### parsing one token `op|tgt|arg` of the dump (used by the driver; glue, like `parseInstr`) -/

def nativeKindCode (name : String) : Int :=
  if name == "_index" then 1 else if name == "_slice" then 2 else if name == "getpath" then 3 else 0

def parseDump (tok : String) : Option Opt.Instr :=
  match tok.splitOn "|" with
  | [op, tgt, arg] =>
    if op == "call" && arg.startsWith "@" then
      -- `@name/argc`
      match ((arg.drop 1).toString).splitOn "/" with
      | [name, argc] =>
        match argc.toInt? with
        | some n => some { op := "calln", arg := arg, ints := [nativeKindCode name, n] }
        | none => none
      | _ => none
    else if op == "push" then
      -- `v5b…` is the wire form `[ … ]` of an array constant
      some { op := op, arg := if arg.startsWith "v5b" then "arr" else "_" }
    else if op == "index" || op == "indexarray" then
      -- `v6e` is the wire form `n` of a nil constant
      some { op := op, arg := if arg == "v6e" then "null" else "_" }
    else
      some { op := op, tgt := if tgt == "_" then none else tgt.toInt?, arg := arg,
             ints := if arg.startsWith "v" || arg == "_" then [] else Opt.parseInts arg }
  | _ => none

/-- a diagnostic for the driver: the first pc the verifier rejects -/
def firstBad (code : Array Shape) (nvars : Nat) : Option Nat :=
  let ann := infer code nvars
  (List.range code.size).find? fun pc => !verifyAt code (scopeTab code) nvars ann pc

end Gojq.SafeVM

/-
  The DOCUMENTED operator table of jq, written from the property text (not from parser.go.y),
  and a precedence-climbing reference parser over it.  It is the specification side of the
  kernel-checked theorems `lalr_pairs` / `lalr_triples` (Props/C09): the shipped LALR tables must
  bracket every operator chain the way this small function does.

    `|` weakest, right-associative; `,` left; `//` right; the update operators non-associative;
    `or`; `and`; the comparisons non-associative; `+ -` left; `* / %` left.
-/
import Gojq.Model.LALR
namespace Gojq.RefParser
open Gojq.LALR Gojq.Generated.Lalr

/-- the 12 operator token classes the parser can distinguish -/
inductive Op where
  | pipe | comma | alt | update | or | and | compare | add | sub | mul | div | mod
  deriving DecidableEq, Repr

def Op.all : List Op := [.pipe, .comma, .alt, .update, .or, .and, .compare, .add, .sub, .mul, .div, .mod]

inductive Assoc where
  | left | right | non
  deriving DecidableEq, Repr

/-- the documented table: binding level (higher binds tighter) and associativity -/
def Op.level : Op → Nat × Assoc
  | .pipe => (1, .right)
  | .comma => (2, .left)
  | .alt => (3, .right)
  | .update => (4, .non)
  | .or => (5, .left)
  | .and => (6, .left)
  | .compare => (7, .non)
  | .add => (8, .left) | .sub => (8, .left)
  | .mul => (9, .left) | .div => (9, .left) | .mod => (9, .left)

/-- what the lexer returns for the class (character code or token constant) -/
def Op.code : Op → Int
  | .pipe => 124 | .comma => 44 | .alt => tokAltOp | .update => tokUpdateOp | .or => tokOrOp
  | .and => tokAndOp | .compare => tokCompareOp | .add => 43 | .sub => 45 | .mul => 42
  | .div => 47 | .mod => 37

/-- internal token number (what `yylex1` hands to the tables) -/
def Op.tok (o : Op) : Int := translate o.code

/-- the atom used around operators: the token `.` -/
def atom : Int := translate 46

def opOfTok (t : Int) : Option Op := Op.all.find? fun o => o.tok == t

/-- bracketing produced by precedence climbing; `none` = syntax error.
    Same flat form as `LALR.bracket`: `lp … rp` around every binary node. -/
def climb : Nat → Nat → List Int → Option (List Int × List Int)
  | 0, _, _ => none
  | fuel + 1, min, toks =>
    match toks with
    | a :: rest => if a == atom then loop fuel min [a] rest else none
    | [] => none
where
  loop : Nat → Nat → List Int → List Int → Option (List Int × List Int)
  | 0, _, _, _ => none
  | fuel + 1, min, lhs, rest =>
    match rest with
    | [] => some (lhs, [])
    | t :: rest' =>
      match opOfTok t with
      | none => none
      | some o =>
        let (lv, assoc) := o.level
        if lv < min then some (lhs, rest) else
          match climb fuel (if assoc == .right then lv else lv + 1) rest' with
          | none => none
          | some (rhs, rest'') =>
            let node := lp :: (lhs ++ t :: rhs ++ [rp])
            let clash := assoc == .non && (match rest'' with
              | t2 :: _ => (match opOfTok t2 with | some o2 => o2.level.1 == lv | none => false)
              | [] => false)
            if clash then none else loop fuel min node rest''

/-- the documented shape of an operator chain -/
def refShape (toks : List Int) : Shape :=
  match climb (4 * toks.length + 4) 0 toks with
  | some (b, []) => .ok b
  | _ => .syntaxError

/-- the prescription for two operators, spelled out (no parser involved):
    the tighter operator groups first; at equal level the associativity decides;
    two non-associative operators of one level are a syntax error. -/
def expectedPair (o1 o2 : Op) : Shape :=
  let l : List Int := [lp, lp, atom, o1.tok, atom, rp, o2.tok, atom, rp]      -- (a o1 b) o2 c
  let r : List Int := [lp, atom, o1.tok, lp, atom, o2.tok, atom, rp, rp]      -- a o1 (b o2 c)
  if o1.level.1 < o2.level.1 then .ok r
  else if o1.level.1 > o2.level.1 then .ok l
  else match o1.level.2 with
    | .left => .ok l
    | .right => .ok r
    | .non => .syntaxError

def pairToks (o1 o2 : Op) : List Int := [atom, o1.tok, atom, o2.tok, atom]
def tripleToks (o1 o2 o3 : Op) : List Int := [atom, o1.tok, atom, o2.tok, atom, o3.tok, atom]

end Gojq.RefParser

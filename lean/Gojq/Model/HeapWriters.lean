/-
  Heap model, part 3: the OTHER write sites (C05.1, C06) — natives that build their result by writing
  into a container they allocate, over the labelled trees of `Gojq/Model/Heap.lean`.

  A `Writer` gets the argument values (trees; read only) and the label counter, and answers with the
  result tree, the counter after its allocations, and the LOG of its writes (cell, content) — or with an
  error, or with `scalar` (a result without cells whose value is the business of C03/C10/C13).
  Transliterated from /repo/operator.go, /repo/func.go, /repo/execute.go with respect to ALLOCATION,
  ALIASING and WRITES (which cells are new, which cells of the arguments are returned or referenced,
  which cells are written), not with respect to Go's `append` growth policy:

    funcOpAdd  (arrays, objects, null)      → `wOpAdd`     `[] + x`, `x + []`, `{} + x`, `x + {}`, `null + x`,
                                                           `x + null` RETURN THE ARGUMENT; else a new cell
    add / funcAdd                           → `wAdd`       the accumulator: a COPY of the first array
                                                           (`make` + `copy`) / `maps.Clone` of the first object;
                                                           later arrays are `append`ed — in place while the
                                                           accumulator has spare capacity —, later objects are
                                                           `maps.Copy`'d into it
    opappend (array construction)           → `wAppend`    `append(acc, x)`: in place while `len < cap`, else a
                                                           new cell; the accumulator starts from the constant
                                                           `[]any{}` (capacity 0), so the first append allocates
    flatten                                 → `wFlatten`   a new array (the constant `[]any{}` when empty)
    funcTranspose                           → `wTranspose` a new outer array and a new array per row
    funcReverse                             → `wReverse`   a new array
    sortBy ∘ sortItems (`sort`)             → `wSort`      a new array, elements in `sort.SliceStable` order
    uniqueBy (`unique`)                     → `wUnique`    a new array (the constant `[]any{}` when empty)
    funcGroupBy (`group_by(.)`)             → `wGroupBy`   a new outer array and a new array per group
    funcSortBy, funcUniqueBy, funcGroupBy   → `wSortBy`, `wUniqueBy`, `wGroupByK`   the same with an array of keys
    funcMinBy, funcMaxBy (minMaxBy)         → `wMinMaxBy`  an ELEMENT of the array: no allocation
    deepMergeObjects (`*` on objects)       → `wDeepMerge` a new map per level where both sides are objects
    opobject (object construction)          → `wObject`    a new map; the values are shared, not copied
    funcJoin, funcImplode                   → `wScalar`    read their arguments, build a string: no cell

  The accumulating natives (`flatten`, `unique`, `group_by`) `append` into slices that start from the
  constant `[]any{}` or from a one-element literal of their own; the intermediate arrays they outgrow are
  their own and unreachable afterwards: the model allocates the final arrays only.  For `add` and
  `opappend`, where an accumulator could adopt an argument, the accumulation is modelled step by step.
  Core Lean only.
-/
import Gojq.Model.Heap
import Gojq.Model.Sort
namespace Gojq.Heap
open Gojq

/-- outcome of a writer -/
inductive WRes where
  | ok (t : T) (f : Nat) (log : Log)   -- result, counter after the call, writes of the call
  | err                                -- Go error value
  | scalar                             -- a scalar the model does not compute: no cell involved
  deriving Inhabited

/-- heap behaviour of a native: argument values and the label counter in, `WRes` out -/
abbrev Writer := List T → Nat → WRes

/-- `make([]any, n)` / a slice literal, then the stores that fill it: a new cell (capacity = length) -/
def allocArr (ks : Kids) (f : Nat) (log : Log) : T × Nat × Log :=
  (.node f false ks.length ks, f + 1, log ++ [(f, ks)])

/-- `make(map[string]any, n)` then the stores -/
def allocObj (ks : Kids) (f : Nat) (log : Log) : T × Nat × Log :=
  (.node f true 0 ks, f + 1, log ++ [(f, ks)])

/-- the constant `[]any{}`: capacity 0, no address of its own, nothing is ever written into it -/
def emptyLit (f : Nat) (log : Log) : T × Nat × Log := (.node f false 0 [], f + 1, log)

def arrOrEmpty (ks : Kids) (f : Nat) (log : Log) : T × Nat × Log :=
  if ks.isEmpty then emptyLit f log else allocArr ks f log

/-- `m[k] = t` on the sorted children of an object -/
def kidsInsert (k : Bytes) (t : T) (ks : Kids) : Kids :=
  let r := splitKey k ks
  r.1 ++ (k, t) :: r.2.2

/-- `maps.Copy(dst, src)` on children lists -/
def kidsMerge (dst src : Kids) : Kids := src.foldl (fun acc x => kidsInsert x.1 x.2 acc) dst

/-- capacity after an `append` that does not fit (Go's rule for small slices, without the rounding to
    size classes; capacities of new cells are not compared by the `heap` stream) -/
def growCap (old needed : Nat) : Nat := if needed > 2 * old then needed else 2 * old

/-- `append(acc, xs...)`: nothing for no elements; in place into the cell of `acc` while the elements
    fit its capacity; else a new cell -/
def appendTo (acc : T) (xs : Kids) (f : Nat) (log : Log) : T × Nat × Log :=
  match acc with
  | .node id false c ks =>
    if xs.isEmpty then (acc, f, log)
    else if ks.length + xs.length ≤ c then (.node id false c (ks ++ xs), f, log ++ [(id, ks ++ xs)])
    else (.node f false (growCap c (ks.length + xs.length)) (ks ++ xs), f + 1, log ++ [(f, ks ++ xs)])
  | _ => (acc, f, log)

/-! ### `funcOpAdd` on arrays, objects and null -/

def wOpAdd : Writer
  | [l, r], f =>
    match l, r with
    | .node _ false _ lk, .node _ false _ rk =>
      if lk.isEmpty then .ok r f []
      else if rk.isEmpty then .ok l f []
      else let a := allocArr (lk ++ rk) f []; .ok a.1 a.2.1 a.2.2
    | .node _ true _ lk, .node _ true _ rk =>
      if lk.isEmpty then .ok r f []
      else if rk.isEmpty then .ok l f []
      else let a := allocObj (kidsMerge lk rk) f []; .ok a.1 a.2.1 a.2.2
    | .leaf .null, _ => .ok r f []
    | _, .leaf .null => .ok l f []
    | .leaf _, .leaf _ => .scalar             -- numbers, strings: no cell (type errors among them included)
    | _, _ => .err                            -- array + object, container + scalar …
  | _, _ => .err

/-! ### `add` -/

/-- the accumulator `v` of `add`: still `nil`, or an array / object cell of its own -/
inductive Acc where
  | none
  | cell (t : T)

/-- one element of the loop of `add`; `none` = an element the model does not follow (a scalar: the sum
    of numbers or strings has no cell) or a Go error (array + object) — told apart by `addElemErr` -/
def addElem (acc : Acc) (x : T) (f : Nat) (log : Log) : Option (Acc × Nat × Log) :=
  match x with
  | .leaf .null => some (acc, f, log)                                     -- `case nil: continue`
  | .node _ false _ xk =>
    match acc with
    | .none => let a := allocArr xk f log; some (.cell a.1, a.2.1, a.2.2)  -- `s := make(len(x)); copy(s, x)`
    | .cell (.node id false c ks) =>
      let a := appendTo (.node id false c ks) xk f log; some (.cell a.1, a.2.1, a.2.2)
    | _ => Option.none
  | .node _ true _ xk =>
    match acc with
    | .none => let a := allocObj xk f log; some (.cell a.1, a.2.1, a.2.2)  -- `maps.Clone(x)`
    | .cell (.node id true c ks) =>
      some (.cell (.node id true c (kidsMerge ks xk)), f, log ++ [(id, kidsMerge ks xk)])   -- `maps.Copy(w, x)`
    | _ => Option.none
  | _ => Option.none

/-- array + object (either order) is a Go error; everything else `addElem` refuses is a scalar -/
def addElemErr (acc : Acc) (x : T) : Bool :=
  match acc, x with
  | .cell (.node _ false _ _), .node _ true _ _ => true
  | .cell (.node _ true _ _), .node _ false _ _ => true
  | .cell _, .leaf (.bool _) => true
  | .cell _, .leaf (.num _) => true
  | .cell _, .leaf (.str _) => true
  | _, _ => false

def addLoop : Kids → Acc → Nat → Log → WRes
  | [], .none, f, log => .ok T.null f log
  | [], .cell t, f, log => .ok t f log
  | (_, x) :: rest, acc, f, log =>
    match addElem acc x f log with
    | some (acc', f', log') => addLoop rest acc' f' log'
    | Option.none => if addElemErr acc x then .err else .scalar

/-- `add` on an array or an object (its values in key order) -/
def wAdd : Writer
  | [.node _ _ _ ks], f => addLoop ks .none f []
  | _, _ => .err

/-! ### `opappend` -/

/-- `env.values[i] = append(env.values[i].([]any), x)` -/
def wAppend : Writer
  | [acc, x], f =>
    match acc with
    | .node _ false _ _ => let a := appendTo acc [([], x)] f []; .ok a.1 a.2.1 a.2.2
    | _ => .err
  | _, _ => .err

/-! ### `flatten` -/

/-- the elements `flatten(xs, vs, depth)` appends; `none` = unlimited depth (`depth = -1`) -/
def flatK (d : Option Nat) : Kids → Kids
  | [] => []
  | (_, t) :: rest =>
    match t with
    | .node id false c ks =>
      if d = some 0 then ([], .node id false c ks) :: flatK d rest
      else flatK (d.map (· - 1)) ks ++ flatK d rest
    | t => ([], t) :: flatK d rest

def valuesOf : T → Option Kids
  | .node _ false _ ks => some ks
  | .node _ true _ ks => some (ks.map fun x => ([], x.2))
  | _ => none

/-- `flatten` / `flatten(depth)` (`d = none`: no argument) -/
def wFlatten (d : Option Nat) : Writer
  | [v], f =>
    match valuesOf v with
    | some ks => let a := arrOrEmpty (flatK d ks) f []; .ok a.1 a.2.1 a.2.2
    | none => .err
  | _, _ => .err

/-! ### `transpose` -/

def arrKids : T → Option Kids
  | .node _ false _ ks => some ks
  | _ => none

/-- row `j` of the result: element `j` of every inner array, `null` where it is shorter -/
def column (rows : List Kids) (j : Nat) : Kids := rows.map fun r => ([], (r[j]?.map (·.2)).getD T.null)

/-- allocate the rows one after the other -/
def allocRows : List Kids → Nat → Log → Kids × Nat × Log
  | [], f, log => ([], f, log)
  | r :: rest, f, log =>
    let a := allocArr r f log
    let b := allocRows rest a.2.1 a.2.2
    (([], a.1) :: b.1, b.2.1, b.2.2)

def wTranspose : Writer
  | [.node _ false _ ks], f =>
    if ks.isEmpty then let a := emptyLit f []; .ok a.1 a.2.1 a.2.2
    else match ks.mapM (fun x => arrKids x.2) with
      | none => .err
      | some rows =>
        let l := (rows.map List.length).foldl max 0
        -- `xs := make([]any, l)` gets its label first, the rows follow
        let b := allocRows ((List.range l).map (column rows)) (f + 1) []
        .ok (.node f false l b.1) b.2.1 (b.2.2 ++ [(f, b.1)])
  | _, _ => .err

/-! ### `reverse`, `sort`, `unique`, `group_by(.)` -/

def wReverse : Writer
  | [.node _ false _ ks], f => let a := allocArr ks.reverse f []; .ok a.1 a.2.1 a.2.2
  | _, _ => .err

/-- the items of `sortItems(name, v, v)`: position and key (the value itself) -/
def idxItems (ks : Kids) : List Item :=
  (List.range ks.length).zip ks |>.map fun p => (JV.num (.int p.1), abs p.2.2)

def itemIdx (it : Item) : Nat :=
  match it.1 with
  | .num (.int i) => i.toNat
  | _ => 0

def pick (ks : Kids) (it : Item) : Bytes × T := ([], ((ks[itemIdx it]?).map (·.2)).getD T.null)

def wSort : Writer
  | [.node _ false _ ks], f =>
    let a := allocArr ((sortItems (idxItems ks)).map (pick ks)) f []; .ok a.1 a.2.1 a.2.2
  | _, _ => .err

def wUnique : Writer
  | [.node _ false _ ks], f =>
    let a := arrOrEmpty ((uniqueItems (sortItems (idxItems ks))).map (pick ks)) f []; .ok a.1 a.2.1 a.2.2
  | _, _ => .err

def wGroupBy : Writer
  | [.node _ false _ ks], f =>
    let groups := (groupItems (sortItems (idxItems ks))).map fun g => g.map (pick ks)
    if groups.isEmpty then let a := emptyLit f []; .ok a.1 a.2.1 a.2.2
    else
      let b := allocRows groups (f + 1) []
      .ok (.node f false groups.length b.1) b.2.1 (b.2.2 ++ [(f, b.1)])
  | _, _ => .err

/-! ### `_sort_by`, `_unique_by`, `_group_by`, `_min_by`, `_max_by` with an array of keys -/

/-- the items of `sortItems(name, v, x)`: position and key -/
def idxItemsBy (ks xs : Kids) : List Item :=
  (List.range ks.length).zip xs |>.map fun p => (JV.num (.int p.1), abs p.2.2)

def wSortBy : Writer
  | [.node _ false _ ks, .node _ false _ xs], f =>
    if ks.length = xs.length then
      let a := allocArr ((sortItems (idxItemsBy ks xs)).map (pick ks)) f []; .ok a.1 a.2.1 a.2.2
    else .err
  | _, _ => .err

def wUniqueBy : Writer
  | [.node _ false _ ks, .node _ false _ xs], f =>
    if ks.length = xs.length then
      let a := arrOrEmpty ((uniqueItems (sortItems (idxItemsBy ks xs))).map (pick ks)) f []; .ok a.1 a.2.1 a.2.2
    else .err
  | _, _ => .err

def wGroupByK : Writer
  | [.node _ false _ ks, .node _ false _ xs], f =>
    if ks.length = xs.length then
      let groups := (groupItems (sortItems (idxItemsBy ks xs))).map fun g => g.map (pick ks)
      if groups.isEmpty then let a := emptyLit f []; .ok a.1 a.2.1 a.2.2
      else
        let b := allocRows groups (f + 1) []
        .ok (.node f false groups.length b.1) b.2.1 (b.2.2 ++ [(f, b.1)])
    else .err
  | _, _ => .err

/-- `minMaxBy`: an ELEMENT of the array (or `null` for the empty array): no allocation, no write -/
def wMinMaxBy (isMin : Bool) : Writer
  | [.node _ false _ ks, .node _ false _ xs], f =>
    if ks.length = xs.length then
      match idxItemsBy ks xs with
      | [] => .ok T.null f []
      | it :: rest => .ok (pick ks (minMaxLoop isMin it rest)).2 f []
    else .err
  | _, _ => .err

/-! ### `deepMergeObjects` (`*` on objects) -/

/-- the loop `for k, v := range r` of `deepMergeObjects` over the content `m` of the new map (a copy of
    `l`): where both sides hold an object the two are merged into ANOTHER new map, else `m[k] = v` -/
def mergeKids (m : Kids) : Kids → Nat → Log → Kids × Nat × Log
  | [], f, log => (m, f, log)
  | (k, v) :: rest, f, log =>
    match (splitKey k m).2.1, v with
    | some (.node _ true _ mk), .node _ true _ rk =>
      let r1 := mergeKids mk rk (f + 1) log
      mergeKids (kidsInsert k (.node f true 0 r1.1) m) rest r1.2.1 (r1.2.2 ++ [(f, r1.1)])
    | _, _ => mergeKids (kidsInsert k v m) rest f log

/-- `funcOpMul` on two objects -/
def wDeepMerge : Writer
  | [.node _ true _ lk, .node _ true _ rk], f =>
    let r1 := mergeKids lk rk (f + 1) []
    .ok (.node f true 0 r1.1) r1.2.1 (r1.2.2 ++ [(f, r1.1)])
  | [_, _], _ => .scalar          -- numbers, strings, errors among other types: no cell
  | _, _ => .err

/-! ### `opobject` (object construction) -/

/-- the popped (key, value) pairs of `opobject`: keys must be strings -/
def objPairs : List T → Option Kids
  | [] => some []
  | .leaf (.str k) :: v :: rest => (objPairs rest).map fun ps => (k, v) :: ps
  | _ => none

/-- `if _, ok := m[s]; !ok { m[s] = v }`: the first pair popped for a key wins -/
def insertNew (acc : Kids) (x : Bytes × T) : Kids :=
  match (splitKey x.1 acc).2.1 with
  | some _ => acc
  | none => kidsInsert x.1 x.2 acc

/-- `opobject`: `m := make(map[string]any, n)` filled from the popped pairs (`args` = key, value, key, value …
    in pop order); not called by the `heap` stream (no hook) -/
def wObject : Writer
  | args, f =>
    match objPairs args with
    | none => .err
    | some ps => let a := allocObj (ps.foldl insertNew []) f []; .ok a.1 a.2.1 a.2.2

/-! ### natives that return a string -/

/-- `join`, `implode`: read the arguments, write no cell, return no cell -/
def wScalar : Writer := fun _ _ => .scalar

end Gojq.Heap

/-
  C01.3 — compiler + VM for a fragment of jq, small enough to PROVE the refinement
  "running the compiled program yields exactly the outputs the reference semantics prescribes"
  and rich enough to contain what makes gojq's VM delicate: backtracking through forks,
  registers that survive backtracking (`[q]` accumulators), call frames whose register area
  is reclaimed only when no pending fork protects it, recursion, and filter arguments passed
  as closures `(pc, scope index)` that are looked up through the lexical `outerindex` chain.

  Fragment (`Q`): `.`  constants  `a | b`  `a , b`  `.[]`  `.name`  `empty`  `[q]`  `error`  `try b`
  `try b catch h`  `if c then a else b end` (so also `elif`, `and`, `or`)  `l // r`  `$x`
  `src as $x | body`  `reduce src as $x (init; upd)`  `foreach src as $x (init; upd; ext)`
  `{(k₁): v₁, a: v₂, …}` with generator keys and values (entries with a key query or a constant key)
  `delay q` (the instructions of `q`; one more unit of fuel of the reference semantics — used by the tie to
  `Spec.eval`, Model/MiniSpec.lean)
  (variables local to a scope)  and, over a program `def f₀(g): …; def f₁(g): …; main` of one-filter-parameter
  functions: the parameter `g` and calls `fᵢ(a)` (any recursion).

    * `eval`     — fuel-indexed reference semantics (what Spec.eval says on this fragment; running
                   out of fuel is the absorbing outcome `diverge`)
    * `compile`  — emits, instruction for instruction, what compiler.go emits for these forms with
                   every optimisation switched off (compileQuery / compileComma / compileArray /
                   compileTry / compileIf / compileAlt / compileBind / compileReduce / compileForeach /
                   compileObject / compileObjectKeyVal / compileFuncDef / compileFunc /
                   compileCallInternal); `compileProg` lays out the
                   whole program as `Compile` does.  Registers `[scope id, i]` are named by the pc
                   of the scope's `opscope` and the pc offset of the allocating instruction; the
                   correspondence stream `mini` compares modulo that renaming.
    * `step`     — one iteration of the `loop:` of `(*env).Next` (execute.go) for the 23 opcodes
                   the fragment needs (+ the native `error`), with the `backtrack` and `err` locals
                   (`err` possibly wrapped in `tryEndError`s: `VErr`), `pushfork` /
                   `popfork` (the `Cfg.fail` state), `callpc` / `index` locals (`CP`), `opscope`'s
                   `outerindex` computation, `popscope`'s conditional reclaiming of `offset`.
                   A Go panic (failed type assertion, `env.index` not finding the scope, pop of
                   an empty stack) is `none` (the machine is stuck), never a default value.
    * `exec`     — successive `Next()` calls until exhaustion.

  Abstraction, validated by the `mini` and `stack` streams, not by a theorem: the persistent
  stacks (data stack, scope stack) are immutable lists that a fork copies — justified by
  Props/C01Stack.lean — and scope indices are depths from the bottom of the frame list.
  `opexpbegin` / `opexpend` (`env.expdepth`, read only in path mode) are no-ops.
  Everything else is literal: `env.values` is one register file that survives backtracking and
  holds values AND closures (the closure a function receives is stored by its prologue into
  register 1 of its frame and read back by `opload` through `env.index`).
  Core Lean only.
-/
import Gojq.Model.Json
namespace Gojq.MiniVM
open Gojq

abbrev V := JV
abbrev Name := Nat

/-- what the fragment takes from the host library, as parameters of the whole development (the
    theorems hold for every choice; the driver plugs in Model/Native/{Base,Index}.lean):
    the text of `iteratorError{v}.Error()` as a jq value (what `catch` receives), the function
    `funcIndex2` behind `.name` (`none`: it returns an error) and the text of that error -/
class IterMsg where
  msg : V → V
  index : V → V → Option V
  indexMsg : V → V → V
  /-- the text of `objectKeyNotStringError{k}.Error()` -/
  keyMsg : V → V

/-! ## the fragment and its reference semantics -/

inductive Q where
  | id | const (c : V) | pipe (a b : Q) | comma (a b : Q) | iter | empty | arr (q : Q)
  | param | call1 (f : Name) (a : Q)
  /-- `error`: raise the input as an error value -/
  | error
  /-- `try b` -/
  | try_ (b : Q)
  /-- `try b catch h` -/
  | tryCatch (b h : Q)
  /-- `.name` (`opindex` with a constant key) -/
  | index (k : V)
  /-- `if c then a else b end` (`if c then a end` is `ite c a id`; `elif` is an `ite` in `b`) -/
  | ite (c a b : Q)
  /-- `l // r` -/
  | alt (l r : Q)
  /-- `$x` -/
  | var (x : Nat)
  /-- `src as $x | body` -/
  | bind (x : Nat) (src body : Q)
  /-- `reduce src as $x (init; upd)` -/
  | reduce (x : Nat) (src init upd : Q)
  /-- `foreach src as $x (init; upd; ext)` (`foreach src as $x (init; upd)` is `ext = .`) -/
  | foreach (x : Nat) (src init upd ext : Q)
  /-- `{(k₁): v₁, …, (kₙ): vₙ}` (n ≥ 1) is `obj sp` with the entries as the left-nested spine
      `sp = objSnoc (… (objSnoc objStart k₁ v₁) …) kₙ vₙ`.  `objStart` / `objSnoc` are not queries by
      themselves (the reference semantics gives them no meaning: `diverge`); the spine is kept inside
      `Q` so that `Q` stays a plain inductive type. -/
  | obj (sp : Q)
  | objStart
  /-- one more entry `(k): v` with a key QUERY (also `$x: v`, `"…": v` through `k`) -/
  | objSnoc (init k v : Q)
  /-- one more entry `key: v` with a CONSTANT key (`a: v`, `"a": v`; the shorthands `{a}` = `a: .a` and
      `{$x}` = `x: $x` are compiled to the same instructions) -/
  | objSnocC (init : Q) (key : V) (v : Q)
  /-- `q` itself: the same instructions, one more unit of reference fuel (used by the tie to
      `Spec.eval`, which spends fuel per object entry: Model/MiniSpec.lean `Tr.obj`) -/
  | delay (q : Q)
  deriving Inhabited

/-- the key of an object entry: a query, or a constant -/
inductive EKey where
  | q (k : Q)
  | c (key : JV)

/-- the entries `(keyᵢ, vᵢ)` of a spine, in order -/
def Q.entries : Q → List (EKey × Q)
  | .objSnoc init k v => init.entries ++ [(.q k, v)]
  | .objSnocC init key v => init.entries ++ [(.c key, v)]
  | _ => []

/-- a spine: `objStart` extended by entries -/
def Q.IsSpine : Q → Prop
  | .objStart => True
  | .objSnoc init _ _ => init.IsSpine
  | .objSnocC init _ _ => init.IsSpine
  | _ => False

inductive Err where
  /-- `.[]` on a value that is neither an array nor an object (`iteratorError`) -/
  | notIter (v : V)
  /-- use of the parameter outside any function (a compile error in jq; reference semantics only) -/
  | noParam
  /-- `error` on input `v` (a `ValueError`) -/
  | user (v : V)
  /-- `.name` on a value `funcIndex2` rejects -/
  | idx (v k : V)
  /-- use of an unbound variable (a compile error in jq; reference semantics only) -/
  | noVar (x : Nat)
  /-- `{(k): …}` with a key that is not a string (`objectKeyNotStringError`) -/
  | keyNotStr (k : V)

/-- what `catch` receives: the error value of `error`, the message text otherwise
    (`opforktrybegin`: `ValueError` → `e.Value()`, else `err.Error()`) -/
def Err.toV [IterMsg] : Err → V
  | .notIter v => IterMsg.msg v
  | .noParam => .null
  | .user v => v
  | .idx v k => IterMsg.indexMsg v k
  | .noVar _ => .null
  | .keyNotStr k => IterMsg.keyMsg k

/-- `v == nil || v == false` (`opjumpifnot`) -/
def falsy : V → Bool
  | .null => true
  | .bool false => true
  | _ => false

inductive Stop where
  | done | err (e : Err) | diverge

def Stop.toErr : Stop → Option Err
  | .err e => some e
  | _ => none

structure Res where
  outs : List V
  stop : Stop

/-- sequencing: feed the outputs to `f` in order; the first non-`done` stop ends the stream -/
def Res.bindL (f : V → Res) : List V → Stop → Res
  | [], s => ⟨[], s⟩
  | x :: xs, s =>
    match f x with
    | ⟨o, .done⟩ => let r := Res.bindL f xs s; ⟨o ++ r.outs, r.stop⟩
    | ⟨o, st⟩ => ⟨o, st⟩

/-- `.[]`: the elements of an array, the values of an object in key order -/
def iterItems : V → Option (List V)
  | .arr xs => some xs
  | .obj kvs => some (kvs.map (·.2))
  | _ => none

/-- closures of the reference semantics: the function whose body created it, the argument
    expression, the environment of that body -/
inductive Clo where
  | none
  | mk (h : Option Name) (q : Q) (env : Clo)
  deriving Inhabited

/-- `k`, unless `r` ran out of fuel (running out of fuel is absorbing) -/
def guardND (r k : Res) : Res :=
  match r.stop with
  | .diverge => ⟨[], .diverge⟩
  | _ => k

/-- the loop of `reduce`: the state is threaded through the outputs of the source; the LAST
    output of the update becomes the state and an empty update keeps it; the first error ends
    everything; at the end the state is the one output -/
def reduceL (upd : V → V → Res) (final : Stop) : List V → V → Res
  | [], s => match final with
    | .done => ⟨[s], .done⟩
    | st => ⟨[], st⟩
  | w :: ws, s =>
    match upd w s with
    | ⟨o, .done⟩ => reduceL upd final ws (o.getLast?.getD s)
    | ⟨_, st⟩ => ⟨[], st⟩

/-- one stream after the other: the second only if the first ended normally -/
def Res.seq (r1 r2 : Res) : Res :=
  match r1 with
  | ⟨o, .done⟩ => ⟨o ++ r2.outs, r2.stop⟩
  | ⟨o, st⟩ => ⟨o, st⟩

/-- the loop of `foreach`: every output of the update becomes the state and is passed to the
    extractor, whose outputs are emitted -/
def foreachL (upd : V → V → Res) (ext : V → V → Res) (final : Stop) : List V → V → Res
  | [], _ => ⟨[], final⟩
  | w :: ws, s =>
    let ru := upd w s
    guardND ru ((Res.bindL (ext w) ru.outs ru.stop).seq (foreachL upd ext final ws (ru.outs.getLast?.getD s)))

/-- sequencing with the absorbing out-of-fuel outcome: `r`'s outputs fed to `f` in order -/
def Res.bindG (r : Res) (f : V → Res) : Res :=
  match r.stop with
  | .diverge => ⟨[], .diverge⟩
  | _ => Res.bindL f r.outs r.stop

/-- the loop of `opobject` over the evaluated pairs, LAST entry first (it pops them off the stack):
    the first key met that is not a string is the error; a key already present — set by a LATER
    entry — is kept (`if _, ok := m[s]; !ok { m[s] = v }`) -/
def objOfPairsRev : List (V × V) → List (Bytes × V) → Except V (List (Bytes × V))
  | [], m => .ok m
  | (k, v) :: rest, m =>
    match k with
    | .str s => objOfPairsRev rest (if m.any (fun kv => kv.1 == s) then m else kvInsert s v m)
    | _ => .error k

/-- the object built from the evaluated pairs (in the order of the entries), or the key error -/
def objOfPairs (acc : List (V × V)) : Res :=
  match objOfPairsRev acc.reverse [] with
  | .ok m => ⟨[.obj m], .done⟩
  | .error k => ⟨[], .err (.keyNotStr k)⟩

/-- object construction over the entries in order: for each output of the FIRST key (outermost
    loop), for each output of its value, for each output of the second key, …, of the last value
    (innermost loop): one object.  Every key and value is evaluated on the input `x` of the object
    construction; a key is evaluated before its value; key errors are found when the object is
    built, after all entries have produced a value. -/
def evalEntries (ev : Q → V → Res) (x : V) : List (EKey × Q) → List (V × V) → Res
  | [], acc => objOfPairs acc
  | (.q k, v) :: rest, acc =>
    (ev k x).bindG fun kk => (ev v x).bindG fun vv => evalEntries ev x rest (acc ++ [(kk, vv)])
  | (.c key, v) :: rest, acc =>
    (ev v x).bindG fun vv => evalEntries ev x rest (acc ++ [(key, vv)])

def lookup {α : Type} (x : Nat) : List (Nat × α) → Option α
  | [] => none
  | (y, a) :: rest => if y = x then some a else lookup x rest

/-- the static context of a query: the function whose body (or whose argument expression) it
    belongs to (`none`: the main query) and, for the compiler, the variables in scope with the
    register (of the current scope) each lives in -/
structure Ctx where
  fn : Option Name
  vars : List (Nat × Nat)

/-- the environment of the reference semantics: what the parameter of the enclosing function is
    bound to, and the values of the variables in scope -/
structure Env where
  clo : Clo
  vars : List (Nat × V)

/-- fuel decreases at every constructor.  Variables are local to a scope: a function body or an
    argument expression starts without variables (`Q.Closed` rules out references across). -/
def eval [IterMsg] (defs : Name → Q) : Nat → Ctx → Env → Q → V → Res
  | 0, _, _, _, _ => ⟨[], .diverge⟩
  | _+1, _, _, .id, v => ⟨[v], .done⟩
  | _+1, _, _, .const c, _ => ⟨[c], .done⟩
  | n+1, g, ρ, .pipe a b, v =>
    let ra := eval defs n g ρ a v
    match ra.stop with
    | .diverge => ⟨[], .diverge⟩
    | _ => Res.bindL (eval defs n g ρ b) ra.outs ra.stop
  | n+1, g, ρ, .comma a b, v =>
    match eval defs n g ρ a v with
    | ⟨o, .done⟩ => let rb := eval defs n g ρ b v; ⟨o ++ rb.outs, rb.stop⟩
    | r => r
  | _+1, _, _, .iter, v =>
    match iterItems v with
    | some xs => ⟨xs, .done⟩
    | none => ⟨[], .err (.notIter v)⟩
  | _+1, _, _, .empty, _ => ⟨[], .done⟩
  | n+1, g, ρ, .arr q, v =>
    match eval defs n g ρ q v with
    | ⟨o, .done⟩ => ⟨[.arr o], .done⟩
    | ⟨_, st⟩ => ⟨[], st⟩
  | n+1, _, ρ, .param, v =>
    match ρ.clo with
    | .mk h q ρ' => eval defs n ⟨h, []⟩ ⟨ρ', []⟩ q v
    | .none => ⟨[], .err .noParam⟩
  | n+1, g, ρ, .call1 f a, v => eval defs n ⟨some f, []⟩ ⟨.mk g.fn a ρ.clo, []⟩ (defs f) v
  | _+1, _, _, .error, v => ⟨[], .err (.user v)⟩
  | n+1, g, ρ, .try_ b, v =>
    -- a catchable error of the body ends the stream silently
    match eval defs n g ρ b v with
    | ⟨o, .err _⟩ => ⟨o, .done⟩
    | r => r
  | n+1, g, ρ, .tryCatch b h, v =>
    -- … or runs the handler on the error value / message; errors of the handler are not caught
    match eval defs n g ρ b v with
    | ⟨o, .err e⟩ => let rh := eval defs n g ρ h e.toV; ⟨o ++ rh.outs, rh.stop⟩
    | r => r
  | _+1, _, _, .index k, v =>
    match IterMsg.index v k with
    | some w => ⟨[w], .done⟩
    | none => ⟨[], .err (.idx v k)⟩
  | n+1, g, ρ, .ite c a b, v =>
    -- for each output of the condition, on the ORIGINAL input
    let rc := eval defs n g ρ c v
    match rc.stop with
    | .diverge => ⟨[], .diverge⟩
    | _ => Res.bindL (fun w => if falsy w then eval defs n g ρ b v else eval defs n g ρ a v) rc.outs rc.stop
  | n+1, g, ρ, .alt l r, v =>
    -- the outputs of `l` other than null/false; if there is none (and no error), `r`
    let rl := eval defs n g ρ l v
    let truthy := rl.outs.filter fun w => !falsy w
    match rl.stop with
    | .diverge => ⟨[], .diverge⟩
    | .done => if truthy.isEmpty then eval defs n g ρ r v else ⟨truthy, .done⟩
    | .err e => ⟨truthy, .err e⟩
  | _+1, _, ρ, .var x, _ =>
    match lookup x ρ.vars with
    | some w => ⟨[w], .done⟩
    | none => ⟨[], .err (.noVar x)⟩
  | n+1, g, ρ, .bind x s b, v =>
    -- for each output of the source, the body on the ORIGINAL input with `$x` bound to it
    let rs := eval defs n g ρ s v
    match rs.stop with
    | .diverge => ⟨[], .diverge⟩
    | _ => Res.bindL (fun w => eval defs n g ⟨ρ.clo, (x, w) :: ρ.vars⟩ b v) rs.outs rs.stop
  | n+1, g, ρ, .reduce x src init upd, v =>
    -- for each output of `init` (outermost), one run of the loop over the outputs of `src`
    let ri := eval defs n g ρ init v
    match ri.stop with
    | .diverge => ⟨[], .diverge⟩
    | _ => Res.bindL (fun s0 =>
        guardND (eval defs n g ρ src v)
          (reduceL (fun w s => eval defs n g ⟨ρ.clo, (x, w) :: ρ.vars⟩ upd s)
            (eval defs n g ρ src v).stop (eval defs n g ρ src v).outs s0)) ri.outs ri.stop
  | n+1, g, ρ, .foreach x src init upd ext, v =>
    let ri := eval defs n g ρ init v
    match ri.stop with
    | .diverge => ⟨[], .diverge⟩
    | _ => Res.bindL (fun s0 =>
        guardND (eval defs n g ρ src v)
          (foreachL (fun w s => eval defs n g ⟨ρ.clo, (x, w) :: ρ.vars⟩ upd s)
            (fun w u => eval defs n g ⟨ρ.clo, (x, w) :: ρ.vars⟩ ext u)
            (eval defs n g ρ src v).stop (eval defs n g ρ src v).outs s0)) ri.outs ri.stop
  | n+1, g, ρ, .obj sp, v => evalEntries (fun q x => eval defs n g ρ q x) v sp.entries []
  | _+1, _, _, .objStart, _ => ⟨[], .diverge⟩
  | _+1, _, _, .objSnoc _ _ _, _ => ⟨[], .diverge⟩
  | _+1, _, _, .objSnocC _ _ _, _ => ⟨[], .diverge⟩
  | n+1, g, ρ, .delay q, v => eval defs n g ρ q v

/-! ## bytecode (code.go) -/

inductive Instr where
  | const (c : V) | push (c : V) | pop
  | store (sid i : Nat) | load (sid i : Nat) | append (sid i : Nat)
  | fork (t : Nat) | jump (t : Nat) | iter | backtrack
  | call (t : Nat) | scope (id n argc : Nat) | ret
  | pushpc (t : Nat) | callpc
  | forktrybegin (t : Nat) | forktryend
  /-- `opcall` of the native `error/0` -/
  | callerror
  | dup | jumpifnot (t : Nat) | index (k : V)
  /-- `env.expdepth++ / --`: only read in path mode, which the fragment does not have — no-ops here -/
  | expbegin | expend
  /-- `opobject n`: pop `n` value/key pairs, push the object -/
  | object (n : Nat)

abbrev Code := List Instr

/-! ## compiler (compiler.go, optimisations off) -/

/-- the scope id of a function (the pc of its `opscope`); the main query's scope is at pc 0 -/
def scopeOfFn (entry : Name → Nat) : Option Name → Nat
  | none => 0
  | some f => entry f

def scopeOf (entry : Name → Nat) (g : Ctx) : Nat := scopeOfFn entry g.fn

/-- `e` = pc of the `opscope` of the enclosing scope (its id); `p` = pc of the first emitted
    instruction; `g` = the enclosing named function (whose parameter `param` refers to) -/
def compile (entry : Name → Nat) (g : Ctx) (e p : Nat) : Q → List Instr
  | .id => []
  | .const c => [.const c]
  | .pipe a b => let ca := compile entry g e p a; ca ++ compile entry g e (p + ca.length) b
  | .comma a b =>
    -- compileComma: fork L; a; jump END; L: b; END:
    let ca := compile entry g e (p+1) a
    let pb := p + 1 + ca.length + 1
    let cb := compile entry g e pb b
    [.fork pb] ++ ca ++ [.jump (pb + cb.length)] ++ cb
  | .iter => [.iter]
  | .empty => [.backtrack]
  | .arr q =>
    -- compileArray: push []; store r; fork L; q; append r; backtrack; L: pop; load r
    let cq := compile entry g e (p+3) q
    [.push (.arr []), .store e (p - e), .fork (p + 3 + cq.length + 2)] ++ cq ++
      [.append e (p - e), .backtrack, .pop, .load e (p - e)]
  | .param =>
    -- compileFunc, variable case without `$`: load [scope of g, 1]; callpc
    [.load (scopeOf entry g) 1, .callpc]
  | .call1 f a =>
    -- compileCallInternal: store v; (compileFuncDef of the argument:) jump L; scope; a; ret;
    -- L: pushpc; load v; call f
    let ca := compile entry ⟨g.fn, []⟩ (p+2) (p+3) a
    [.store e (p - e), .jump (p + 4 + ca.length), .scope (p+2) (ca.length + 1) 0] ++ ca ++
      [.ret, .pushpc (p+2), .load e (p - e), .call (entry f)]
  | .error => [.callerror]
  | .try_ b =>
    -- compileTry: forktrybegin L; b; forktryend; jump END; L: backtrack; END:
    let cb := compile entry g e (p+1) b
    [.forktrybegin (p + 1 + cb.length + 2)] ++ cb ++ [.forktryend, .jump (p + 1 + cb.length + 3), .backtrack]
  | .tryCatch b h =>
    -- … L: h; END:
    let cb := compile entry g e (p+1) b
    let ch := compile entry g e (p + 1 + cb.length + 2) h
    [.forktrybegin (p + 1 + cb.length + 2)] ++ cb ++ [.forktryend, .jump (p + 1 + cb.length + 2 + ch.length)] ++ ch
  | .index k => [.index k]
  | .ite c a b =>
    -- compileIf: dup; expbegin; c; expend; jumpifnot L; a; jump END; L: b; END:
    let cc := compile entry g e (p+2) c
    let ca := compile entry g e (p + 2 + cc.length + 2) a
    let pl := p + 2 + cc.length + 2 + ca.length + 1
    let cb := compile entry g e pl b
    [.dup, .expbegin] ++ cc ++ [.expend, .jumpifnot pl] ++ ca ++ [.jump (pl + cb.length)] ++ cb
  | .alt l r =>
    -- compileAlt: push false; store found; fork L1; l; dup; jumpifnot L2; push true; store found;
    -- jump END; L2: pop; backtrack; L1: load found; jumpifnot L3; backtrack; pop; L3: r; END:
    let cl := compile entry g e (p+3) l
    let a := p + 3 + cl.length
    let cr := compile entry g e (a + 11) r
    [.push (.bool false), .store e (p - e), .fork (a + 7)] ++ cl ++
      [.dup, .jumpifnot (a + 5), .push (.bool true), .store e (p - e), .jump (a + 11 + cr.length),
       .pop, .backtrack, .load e (p - e), .jumpifnot (a + 11), .backtrack, .pop] ++ cr
  | .var x =>
    -- compileFunc, `$` variable: pop; load [scope, i]
    [.pop, .load e ((lookup x g.vars).getD 0)]
  | .bind x s b =>
    -- compileBind with a variable pattern: dup; expbegin; src; store x; expend; body
    let cs := compile entry g e (p+2) s
    let px := p + 2 + cs.length
    [.dup, .expbegin] ++ cs ++ [.store e (px - e), .expend] ++ compile entry ⟨g.fn, (x, px - e) :: g.vars⟩ e (px + 2) b
  | .reduce x src init upd =>
    -- compileReduce: dup; init; store s; fork L; src; store x; load s; upd; store s; backtrack;
    -- L: pop; load s
    let ci := compile entry g e (p+1) init
    let pst := p + 1 + ci.length                -- the `store s`: the state register is named after it
    let cs := compile entry g e (pst + 2) src
    let px := pst + 2 + cs.length               -- the `store x`
    let cu := compile entry ⟨g.fn, (x, px - e) :: g.vars⟩ e (px + 2) upd
    [.dup] ++ ci ++ [.store e (pst - e), .fork (px + 2 + cu.length + 2)] ++ cs ++
      [.store e (px - e), .load e (pst - e)] ++ cu ++ [.store e (pst - e), .backtrack, .pop, .load e (pst - e)]
  | .foreach x src init upd ext =>
    -- compileForeach: dup; init; store s; src; store x; load s; upd; dup; store s; ext
    let ci := compile entry g e (p+1) init
    let pst := p + 1 + ci.length
    let cs := compile entry g e (pst + 1) src
    let px := pst + 1 + cs.length
    let cu := compile entry ⟨g.fn, (x, px - e) :: g.vars⟩ e (px + 2) upd
    [.dup] ++ ci ++ [.store e (pst - e)] ++ cs ++ [.store e (px - e), .load e (pst - e)] ++ cu ++
      [.dup, .store e (pst - e)] ++ compile entry ⟨g.fn, (x, px - e) :: g.vars⟩ e (px + 2 + cu.length + 2) ext
  | .obj sp =>
    -- compileObject: store v; (for each entry: load v; key; load v; value); object n
    compile entry g e p sp ++ [.object sp.entries.length]
  | .objStart => [.store e (p - e)]
  | .objSnoc init k v =>
    -- compileObjectKeyVal with a key query: load v; key; load v; value — `v` is the register
    -- allocated by the `store` the spine starts with, at `p`
    let ci := compile entry g e p init
    let ck := compile entry g e (p + ci.length + 1) k
    let cv := compile entry g e (p + ci.length + 1 + ck.length + 1) v
    ci ++ [.load e (p - e)] ++ ck ++ [.load e (p - e)] ++ cv
  | .objSnocC init key v =>
    -- compileObjectKeyVal with a constant key: push key; load v; value
    let ci := compile entry g e p init
    ci ++ [.push key, .load e (p - e)] ++ compile entry g e (p + ci.length + 2) v
  | .delay q => compile entry g e p q

/-- length of the code of a query (independent of where it is placed) -/
def Q.size : Q → Nat
  | .id => 0
  | .const _ => 1
  | .pipe a b => a.size + b.size
  | .comma a b => a.size + b.size + 2
  | .iter => 1
  | .empty => 1
  | .arr q => q.size + 7
  | .param => 2
  | .call1 _ a => a.size + 7
  | .error => 1
  | .try_ b => b.size + 4
  | .tryCatch b h => b.size + h.size + 3
  | .index _ => 1
  | .ite c a b => c.size + a.size + b.size + 5
  | .alt l r => l.size + r.size + 14
  | .var _ => 2
  | .bind _ s b => s.size + b.size + 4
  | .reduce _ src init upd => src.size + init.size + upd.size + 9
  | .foreach _ src init upd ext => src.size + init.size + upd.size + ext.size + 6
  | .obj sp => sp.size + 1
  | .objStart => 1
  | .objSnoc init k v => init.size + k.size + v.size + 2
  | .objSnocC init _ v => init.size + v.size + 2
  | .delay q => q.size

/-- a program: `def f₀(g): defs[0]; def f₁(g): defs[1]; …; main` -/
structure Prog where
  defs : List Q
  main : Q

def Prog.defsFn (p : Prog) : Name → Q := fun f => p.defs.getD f .empty

/-- well-scoped: every called function is one of the `nf` defined ones, every variable used is
    in scope (`vs`), and argument expressions do not use variables of the calling scope (a
    restriction of this fragment; function bodies cannot anyway) -/
def Q.Closed (nf : Nat) : List Nat → Q → Prop
  | vs, .pipe a b => a.Closed nf vs ∧ b.Closed nf vs
  | vs, .comma a b => a.Closed nf vs ∧ b.Closed nf vs
  | vs, .arr q => q.Closed nf vs
  | _, .call1 f a => f < nf ∧ a.Closed nf []
  | vs, .try_ b => b.Closed nf vs
  | vs, .tryCatch b h => b.Closed nf vs ∧ h.Closed nf vs
  | vs, .ite c a b => c.Closed nf vs ∧ a.Closed nf vs ∧ b.Closed nf vs
  | vs, .alt l r => l.Closed nf vs ∧ r.Closed nf vs
  | vs, .var x => x ∈ vs
  | vs, .bind x s b => s.Closed nf vs ∧ b.Closed nf (x :: vs)
  | vs, .reduce x src init upd => src.Closed nf vs ∧ init.Closed nf vs ∧ upd.Closed nf (x :: vs)
  | vs, .foreach x src init upd ext =>
    src.Closed nf vs ∧ init.Closed nf vs ∧ upd.Closed nf (x :: vs) ∧ ext.Closed nf (x :: vs)
  | vs, .obj sp => sp.Closed nf vs ∧ sp.IsSpine ∧ sp ≠ .objStart
  | vs, .objSnoc init k v => init.Closed nf vs ∧ k.Closed nf vs ∧ v.Closed nf vs
  | vs, .objSnocC init _ v => init.Closed nf vs ∧ v.Closed nf vs
  | vs, .delay q => q.Closed nf vs
  | _, _ => True

/-- the query uses the parameter of the enclosing function -/
def Q.HasParam : Q → Prop
  | .param => True
  | .pipe a b => a.HasParam ∨ b.HasParam
  | .comma a b => a.HasParam ∨ b.HasParam
  | .arr q => q.HasParam
  | .call1 _ a => a.HasParam
  | .try_ b => b.HasParam
  | .tryCatch b h => b.HasParam ∨ h.HasParam
  | .ite c a b => c.HasParam ∨ a.HasParam ∨ b.HasParam
  | .alt l r => l.HasParam ∨ r.HasParam
  | .bind _ s b => s.HasParam ∨ b.HasParam
  | .reduce _ src init upd => src.HasParam ∨ init.HasParam ∨ upd.HasParam
  | .foreach _ src init upd ext => src.HasParam ∨ init.HasParam ∨ upd.HasParam ∨ ext.HasParam
  | .obj sp => sp.HasParam
  | .objSnoc init k v => init.HasParam ∨ k.HasParam ∨ v.HasParam
  | .objSnocC init _ v => init.HasParam ∨ v.HasParam
  | .delay q => q.HasParam
  | _ => False

/-- well-scoped programs (what the jq compiler accepts): calls go to defined functions and the
    main query does not use a parameter -/
structure Prog.WF (p : Prog) : Prop where
  defs_closed : ∀ q ∈ p.defs, q.Closed p.defs.length []
  main_closed : p.main.Closed p.defs.length []
  main_noparam : ¬ p.main.HasParam

/-- code of one definition (compileFuncDef with one filter argument), placed at `start`:
    jump END; scope [id, n, 1]; store [id,0]; store [id,1]; load [id,0]; body; ret; END: -/
def compileFunc (entry : Name → Nat) (f : Name) (body : Q) (start : Nat) : List Instr :=
  [.jump (start + body.size + 6), .scope (start+1) (body.size + 4) 1,
   .store (start+1) 0, .store (start+1) 1, .load (start+1) 0] ++
    compile entry ⟨some f, []⟩ (start+1) (start+5) body ++ [.ret]

def funcsLen (qs : List Q) : Nat := (qs.map fun q => q.size + 6).sum

/-- pc of the `opscope` of function `f` -/
def entryOf (defs : List Q) (f : Name) : Nat := 2 + funcsLen (defs.take f)

def compileFuncs (entry : Name → Nat) : Name → Nat → List Q → List Instr
  | _, _, [] => []
  | f, start, q :: qs => compileFunc entry f q start ++ compileFuncs entry (f+1) (start + q.size + 6) qs

/-- `Compile`: scope [main, n, 0]; the definitions; main; ret -/
def compileProg (p : Prog) : Code :=
  let pmain := 1 + funcsLen p.defs
  [.scope 0 (pmain + p.main.size) 0] ++ compileFuncs (entryOf p.defs) 0 1 p.defs ++
    compile (entryOf p.defs) ⟨none, []⟩ 0 pmain p.main ++ [.ret]

/-! ## the VM (execute.go) -/

/-- what the data stack holds: a value, the rest of an iteration (`[]pathValue`), a closure
    `[2]int{pc, scope index}` -/
inductive SV where
  | v (x : V)
  | rest (xs : List V)
  | clo (pc : Nat) (d : Nat)

/-- `scope{id, offset, pc, saveindex, outerindex}` plus `nf`, the number of pending forks when
    the frame was pushed (`scopes.index > scopes.limit` at `popscope` ⇔ no fork pushed since
    then is still pending); `saveindex` is implicit in the list representation -/
structure Frame where
  id : Nat
  ret : Nat
  base : Nat
  nf : Nat
  outer : Option Nat

/-- `fork{pc, stackindex/limit, scopeindex/limit, offset}`: the stacks as they were -/
structure Fork where
  pc : Nat
  stack : List SV
  frames : List Frame
  off : Nat

/-- the `err` local of `Next`: an error, possibly wrapped in `tryEndError`s (an error raised by
    the continuation of a `try` body's output, which that `try` must not catch) -/
inductive VErr where
  | plain (e : Err)
  | tryEnd (e : VErr)

/-- the `callpc` and `index` locals of `Next` (`index = -1` is `none`) -/
abbrev CP := Nat × Option Nat
instance : OfNat CP 0 := ⟨(0, none)⟩

/-- `env.values` -/
abbrev Regs := Nat → SV
def Regs.set (R : Regs) (r : Nat) (x : SV) : Regs := fun i => if i = r then x else R i

/-- `run`: at the top of the loop with `pc`, the `backtrack` and `err` locals;
    `fail`: after `break loop`, before `popfork` -/
inductive Cfg where
  | run (pc : Nat) (stack : List SV) (forks : List Fork) (bt : Bool) (err : Option VErr) (regs : Regs)
        (frames : List Frame) (off : Nat) (cp : CP)
  | fail (forks : List Fork) (err : Option VErr) (regs : Regs)

@[simp] def Cfg.regs : Cfg → Regs
  | .run _ _ _ _ _ R _ _ _ => R
  | .fail _ _ R => R

/-- `env.offset` of the top frame -/
def base (fr : List Frame) : Nat := match fr with | f :: _ => f.base | [] => 0

/-- `env.index`: start at the frame of depth `t`, follow `outerindex` until the scope id matches -/
def resolve (sid : Nat) : List Frame → Nat → Option (Frame × Nat)
  | [], _ => none
  | f :: fr, t =>
    if fr.length = t then
      if f.id = sid then some (f, t)
      else match f.outer with
        | some t' => resolve sid fr t'
        | none => none
    else resolve sid fr t

/-- the frame at depth `d` (0 = bottom) -/
def frameAt (fr : List Frame) (d : Nat) : Option Frame :=
  if d < fr.length then fr[fr.length - 1 - d]? else none

/-- depth of the top frame (`env.scopes.index`) -/
def topDepth (fr : List Frame) : Option Nat := if fr.isEmpty then none else some (fr.length - 1)

/-- the loop of `opobject`: pop a value and a key `n` times; a key that is not a string ends it
    with the error; a key already in the map (popped earlier) is kept.  `none`: the stack is too
    short or holds something that is not a value (a Go panic) -/
def popObject : Nat → List SV → List (Bytes × V) → Option (Except V (List (Bytes × V)) × List SV)
  | 0, st, m => some (.ok m, st)
  | n+1, .v v :: .v k :: st, m =>
    match k with
    | .str s => popObject n st (if m.any (fun kv => kv.1 == s) then m else kvInsert s v m)
    | _ => some (.error k, st)
  | _+1, _, _ => none

def step [IterMsg] (code : Code) : Cfg → Option Cfg
  | .fail [] _ _ => none
  | .fail (f :: fs) e R => some (.run f.pc f.stack fs true e R f.frames f.off 0)   -- popfork
  | .run pc st fs bt e R fr off cp =>
    match code[pc]? with
    | none => some (.fail fs e R)                                -- pc = len(codes): leave the loop
    | some (.const c) =>
      match st with
      | _ :: s => some (.run (pc+1) (.v c :: s) fs bt e R fr off cp)
      | [] => none
    | some (.push c) => some (.run (pc+1) (.v c :: st) fs bt e R fr off cp)
    | some .pop =>
      match st with
      | _ :: s => some (.run (pc+1) s fs bt e R fr off cp)
      | [] => none
    | some (.store sid i) =>
      match st with
      | x :: s =>
        match resolve sid fr (fr.length - 1) with
        | some (f, _) => some (.run (pc+1) s fs bt e (R.set (f.base + i) x) fr off cp)
        | none => none                                          -- panic("env.index")
      | [] => none
    | some (.load sid i) =>
      match resolve sid fr (fr.length - 1) with
      | some (f, _) => some (.run (pc+1) (R (f.base + i) :: st) fs bt e R fr off cp)
      | none => none                                            -- panic("env.index")
    | some (.append sid i) =>
      match st, resolve sid fr (fr.length - 1) with
      | .v x :: s, some (f, _) =>
        match R (f.base + i) with
        | .v (.arr xs) => some (.run (pc+1) s fs bt e (R.set (f.base + i) (.v (.arr (xs ++ [x])))) fr off cp)
        | _ => none                                             -- failed assertion `.([]any)`
      | _, _ => none
    | some (.fork t) =>
      if bt then
        if e.isSome then some (.fail fs e R) else some (.run t st fs false e R fr off cp)
      else some (.run (pc+1) st (⟨pc, st, fr, off⟩ :: fs) bt e R fr off cp)     -- pushfork
    | some (.jump t) => some (.run t st fs bt e R fr off cp)
    | some .backtrack => some (.fail fs e R)
    | some (.call t) =>
      if bt then some (.fail fs e R) else some (.run t st fs bt e R fr off (pc, topDepth fr))
    | some (.pushpc t) =>
      match topDepth fr with
      | some d => some (.run (pc+1) (.clo t d :: st) fs bt e R fr off cp)
      | none => none
    | some .callpc =>
      match st with
      | .clo t d :: s => some (.run t s fs bt e R fr off (pc, some d))
      | _ => none                                               -- failed assertion `.([2]int)`
    | some (.scope id n _) =>
      -- outerindex = index; if the frame there has the same id (direct recursion), its outerindex
      let outer : Option (Option Nat) := match cp.2 with
        | none => some none
        | some d => match frameAt fr d with
          | some f => some (if f.id = id then f.outer else some d)
          | none => none
      match outer with
      | some o => some (.run (pc+1) st fs bt e R (⟨id, cp.1, off, fs.length, o⟩ :: fr) (off + n) cp)
      | none => none
    | some .ret =>
      if bt then some (.fail fs e R) else
      match fr with
      | [] => none
      | [_] => none                          -- `scopes.empty()`: Next returns the top of the stack
      | f :: g :: fr' =>
        some (.run (f.ret + 1) st fs false e R (g :: fr') (if fs.length = f.nf then f.base else off) cp)
    | some (.forktrybegin t) =>
      if bt then
        match e with
        | none => some (.fail fs e R)
        | some (.tryEnd x) => some (.fail fs (some x) R)       -- not ours: unwrap and pass on
        | some (.plain er) =>
          match st with
          | _ :: s => some (.run t (.v er.toV :: s) fs false none R fr off cp)
          | [] => none
      else some (.run (pc+1) st (⟨pc, st, fr, off⟩ :: fs) bt e R fr off cp)
    | some .forktryend =>
      if bt then some (.fail fs (e.map .tryEnd) R)
      else some (.run (pc+1) st (⟨pc, st, fr, off⟩ :: fs) bt e R fr off cp)
    | some .dup =>
      match st with
      | x :: s => some (.run (pc+1) (x :: x :: s) fs bt e R fr off cp)
      | [] => none
    | some (.jumpifnot t) =>
      match st with
      | .v x :: s => if falsy x then some (.run t s fs bt e R fr off cp) else some (.run (pc+1) s fs bt e R fr off cp)
      | _ :: s => some (.run (pc+1) s fs bt e R fr off cp)     -- a closure is neither nil nor false
      | [] => none
    | some (.index k) =>
      if bt then some (.fail fs e R) else
      match st with
      | .v x :: s =>
        match IterMsg.index x k with
        | some w => some (.run (pc+1) (.v w :: s) fs bt e R fr off cp)
        | none => some (.fail fs (some (.plain (.idx x k))) R)
      | _ => none
    | some .expbegin => some (.run (pc+1) st fs bt e R fr off cp)
    | some .expend => some (.run (pc+1) st fs bt e R fr off cp)
    | some (.object n) =>
      if bt then some (.fail fs e R) else
      match popObject n st [] with
      | some (.ok m, s) => some (.run (pc+1) (.v (.obj m) :: s) fs bt e R fr off cp)
      | some (.error k, _) => some (.fail fs (some (.plain (.keyNotStr k))) R)
      | none => none
    | some .callerror =>
      if bt then some (.fail fs e R) else
      match st with
      | .v x :: _ => some (.fail fs (some (.plain (.user x))) R)
      | _ => none
    | some .iter =>
      if e.isSome then some (.fail fs e R) else
      match st with
      | .rest (x :: xs) :: s =>
        if xs.isEmpty then some (.run (pc+1) (.v x :: s) fs false e R fr off cp)
        else some (.run (pc+1) (.v x :: s) (⟨pc, .rest xs :: s, fr, off⟩ :: fs) false e R fr off cp)
      | .rest [] :: _ => none
      | .v x :: s =>
        match iterItems x with
        | none => some (.fail fs (some (.plain (.notIter x))) R)
        | some [] => some (.fail fs e R)
        | some (y :: ys) =>
          if ys.isEmpty then some (.run (pc+1) (.v y :: s) fs false e R fr off cp)
          else some (.run (pc+1) (.v y :: s) (⟨pc, .rest ys :: s, fr, off⟩ :: fs) false e R fr off cp)
      | _ => none

/-- `Next()` returned a value: the main frame's `ret` with the scope stack about to become empty -/
def emits (code : Code) : Cfg → Option (V × Cfg)
  | .run pc (.v w :: _) fs false none R [_] _ _ =>
    match code[pc]? with
    | some .ret => some (w, .fail fs none R)       -- the next call re-enters `ret` with backtrack = true
    | _ => none
  | _ => none

inductive Outcome where
  /-- exhausted: the outputs, then the uncaught error if any -/
  | finished (outs : List V) (err : Option VErr)
  | outOfFuel (outs : List V)
  /-- a Go panic -/
  | stuck (outs : List V)

/-- run to exhaustion: the values successive `Next()` calls return -/
def exec [IterMsg] (code : Code) : Nat → Cfg → List V → Outcome
  | 0, _, acc => .outOfFuel acc.reverse
  | n+1, c, acc =>
    match step code c with
    | some c' => exec code n c' acc
    | none =>
      match c with
      | .fail [] e _ => .finished acc.reverse e
      | c =>
        match emits code c with
        | some (w, c') => exec code n c' (w :: acc)
        | none => .stuck acc.reverse

/-- `env.execute`: the input on the stack, no scope, `callpc = len(codes) - 1`, `index = -1` -/
def initCfg (code : Code) (v : V) : Cfg :=
  .run 0 [.v v] [] false none (fun _ => .v .null) [] 0 (code.length - 1, none)

def runProg [IterMsg] (p : Prog) (fuel : Nat) (v : V) : Outcome :=
  exec (compileProg p) fuel (initCfg (compileProg p) v) []

/-! ## `delay` is only reference fuel -/

/-- the query without its `delay`s -/
def Q.strip : Q → Q
  | .pipe a b => .pipe a.strip b.strip
  | .comma a b => .comma a.strip b.strip
  | .arr q => .arr q.strip
  | .call1 f a => .call1 f a.strip
  | .try_ b => .try_ b.strip
  | .tryCatch b h => .tryCatch b.strip h.strip
  | .ite c a b => .ite c.strip a.strip b.strip
  | .alt l r => .alt l.strip r.strip
  | .bind x s b => .bind x s.strip b.strip
  | .reduce x src init upd => .reduce x src.strip init.strip upd.strip
  | .foreach x src init upd ext => .foreach x src.strip init.strip upd.strip ext.strip
  | .obj sp => .obj sp.strip
  | .objSnoc init k v => .objSnoc init.strip k.strip v.strip
  | .objSnocC init key v => .objSnocC init.strip key v.strip
  | .delay q => q.strip
  | q => q

/-- the program without its `delay`s: what the compiler sees -/
def Prog.strip (p : Prog) : Prog := ⟨p.defs.map Q.strip, p.main.strip⟩

end Gojq.MiniVM

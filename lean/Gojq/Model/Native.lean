/-
  Native functions of func.go / operator.go at value level (DESIGN §3.2, C03): each is a
  transliteration of the Go type switch including WHICH error is raised and its text.
  The pieces live in Model/Native/*.lean:

    Base   errors and their messages (error.go, preview.go), toInt/toIntCeil/toFloat, clampIndex
    Index  funcIndex2, index, indexString, funcSlice, slice, sliceString, indices/index/rindex
    Ops    binopTypeSwitch cells of + - * / %, deepMergeObjects, repeatString, keys, has, add,
           flatten, contains, reverse, transpose, error shapes of sort/min/max/group/unique
    Str    startswith … trim, explode/implode, split/1, join, case mapping, toboolean, tonumber
           (validNumber + parseNumber), tostring/tojson/fromjson, @format natives, _captures
    Path   getpath / setpath / delpaths (update, deleteEmpty as mark-then-sweep)
    Math   the exactly computable math functions and the classifiers
    Time   gmtime / mktime

  This file has the dispatcher `callNative` (the table `internalFuncs`): natives that are not
  modelled answer `none`, which the evaluator turns into the explicit outcome `unmodelled`
  (never into a value); an input a modelled native does not cover is the error
  `Err.builtin "UNMODELLED" []`.
-/
import Gojq.Model.Native.Base
import Gojq.Model.Native.Index
import Gojq.Model.Native.Ops
import Gojq.Model.Native.Str
import Gojq.Model.Native.Path
import Gojq.Model.Native.Math
import Gojq.Model.Native.Time
namespace Gojq

/-- `_range` outputs: `value, value+step, …` while `Compare(step,0)*Compare(value,end) < 0` -/
def rangeList (fuel : Nat) (value end_ step : JV) : Option (List JV) :=
  let sgn (o : Ordering) : Int := match o with | .lt => -1 | .eq => 0 | .gt => 1
  let rec go (fuel : Nat) (value : JV) (acc : List JV) : Option (List JV) :=
    match fuel with
    | 0 => none
    | fuel + 1 =>
      if sgn (cmp step (jvInt 0)) * sgn (cmp value end_) ≥ 0 then some acc.reverse
      else match opAdd value step with
        | .ok next => go fuel next (value :: acc)
        | .error _ => none
  go fuel value []

/-- strict number literal → value (`toNumber` / `parseNumber` on a jq number token) -/
def parseNumberLit (text : String) : Option Num :=
  let cs := text.toList
  let (neg, cs) := match cs with | '-' :: r => (true, r) | '+' :: r => (false, r) | r => (false, r)
  let digits (cs : List Char) : List Char × List Char := cs.span Char.isDigit
  let (ip, rest) := digits cs
  let (fp, rest) := match rest with
    | '.' :: r => digits r
    | r => ([], r)
  let hasDot := match cs.drop ip.length with | '.' :: _ => true | _ => false
  let (hasExp, expNeg, ep, rest) := match rest with
    | 'e' :: '-' :: r | 'E' :: '-' :: r => let (d, r') := digits r; (true, true, d, r')
    | 'e' :: '+' :: r | 'E' :: '+' :: r => let (d, r') := digits r; (true, false, d, r')
    | 'e' :: r | 'E' :: r => let (d, r') := digits r; (true, false, d, r')
    | r => (false, false, [], r)
  if !rest.isEmpty || (ip.isEmpty && fp.isEmpty) || (hasExp && ep.isEmpty) then none else
  let toNat (ds : List Char) : Nat := ds.foldl (fun a c => a * 10 + (c.toNat - '0'.toNat)) 0
  if !hasDot && !hasExp then
    let z : Int := toNat ip
    some (.int (if neg then -z else z))
  else
    let mant : Nat := toNat (ip ++ fp)
    let e : Int := (if expNeg then -(toNat ep : Int) else (toNat ep : Int)) - fp.length
    -- guard against astronomically large exponents (result is 0 or ±Inf anyway)
    if mant == 0 then some (if neg then .nzero else .flt 0)
    else if e > 400 then some (.inf neg)
    else if e < -800 - (ip ++ fp).length then some (if neg then .nzero else .flt 0)
    else
      let q : Rat := (mant : Rat) * (10 : Rat) ^ e
      some (roundRat (if neg then -q else q))


/-- `funcRange`'s argument check (in argument order): func0TypeError{"range", x} -/
def rangeCheck : List JV → Option Err
  | [] => none
  | x :: rest => if isNumber x then rangeCheck rest else some (errFunc0 "range" x)

/-- the first `n` outputs of `rangeIter{value, end, step}` and whether more follow -/
def rangePrefix (end_ step : JV) : Nat → JV → List JV × Bool
  | 0, value =>
    let sgn (o : Ordering) : Int := match o with | .lt => -1 | .eq => 0 | .gt => 1
    ([], decide (sgn (cmp step (jvInt 0)) * sgn (cmp value end_) < 0))
  | n + 1, value =>
    let sgn (o : Ordering) : Int := match o with | .lt => -1 | .eq => 0 | .gt => 1
    if sgn (cmp step (jvInt 0)) * sgn (cmp value end_) ≥ 0 then ([], false)
    else match opAdd value step with
      | .ok next => let r := rangePrefix end_ step n next; (value :: r.1, r.2)
      | .error _ => ([value], false)

/-- a native whose result is a number computed from the input converted by `toFloat` -/
def math0 (name : String) (f : Num → Option JV) (v : JV) : Option NRes :=
  match v with
  | .num n => (f n.toFlt).map pure
  | v => some (throw (errFunc0 name v))

/-- `mathFunc2(name, f)`: the INPUT is ignored, the two arguments are converted in order -/
def math2 (name : String) (x y : JV) : Option NRes :=
  match x with
  | .num l =>
    match y with
    | .num r => (mathFn2 name l.toFlt r.toFlt).map fun n => pure (.num n)
    | y => some (throw (errFunc0 name y))
  | x => some (throw (errFunc0 name x))

/-- `mathFunc3("fma", math.FMA)` -/
def math3 (name : String) (a b c : JV) : Option NRes :=
  match a with
  | .num x =>
    match b with
    | .num y =>
      match c with
      | .num z => if name == "fma" then (ffma x.toFlt y.toFlt z.toFlt).map fun n => pure (.num n) else none
      | c => some (throw (errFunc0 name c))
    | b => some (throw (errFunc0 name b))
  | a => some (throw (errFunc0 name a))

/-- strings longer than this are not materialised by `callNative "_multiply"` -/
def repeatLimit : Nat := 1000000

def mulGuard (l r : JV) : Bool :=
  match l, r with
  | .str s, .num n => decide (repeatSize s n.toFlt > repeatLimit)
  | .num n, .str s => decide (repeatSize s n.toFlt > repeatLimit)
  | _, _ => false

/-- result of trying a native: `none` = this native (or this argument shape) is not modelled -/
def callNative (name : String) (v : JV) (args : List JV) : Option NRes :=
  match name, args with
  | "_add", [l, r] => some (opAdd l r)
  | "_subtract", [l, r] => some (opSub l r)
  | "_multiply", [l, r] => some (if mulGuard l r then throw errUnmodelled else opMul l r)
  | "_divide", [l, r] => some (opDiv l r)
  | "_modulo", [l, r] => some (opMod l r)
  | "_alternative", [l, r] => some (pure (opAlt l r))
  | "_equal", [l, r] => some (pure (.bool (opEq l r)))
  | "_notequal", [l, r] => some (pure (.bool (opNe l r)))
  | "_greater", [l, r] => some (pure (.bool (opGt l r)))
  | "_less", [l, r] => some (pure (.bool (opLt l r)))
  | "_greatereq", [l, r] => some (pure (.bool (opGe l r)))
  | "_lesseq", [l, r] => some (pure (.bool (opLe l r)))
  | "_plus", [] => some (opPlus v)
  | "_negate", [] => some (opNegate v)
  | "_index", [x, i] => some (funcIndex2 x i)
  | "_slice", [x, e, s] => some (funcSlice x e s)
  | "_range", [a, b, c] => (rangeCheck [a, b, c]).map throw
  | "_captures", [] => some (funcCaptures v)
  | "abs", [] => some (match v with | .num n => pure (.num (absNum n)) | v => throw (errFunc0 "abs" v))
  | "length", [] => some (match v with
      | .null => pure (jvInt 0)
      | .num n => pure (.num (absNum n))
      | .str s => pure (jvInt (Utf8.runes s).length)
      | .arr xs => pure (jvInt xs.length)
      | .obj kvs => pure (jvInt kvs.length)
      | v => throw (errFunc0 "length" v))
  | "utf8bytelength", [] => some (funcUtf8ByteLength v)
  | "keys", [] => some (funcKeys v)
  | "has", [x] => some (funcHas v x)
  | "add", [] => some (funcAdd v)
  | "toboolean", [] => some (funcToBoolean v)
  | "tonumber", [] => some (funcToNumber v)
  | "tostring", [] => some (funcToString v)
  | "type", [] => some (pure (.str (B v.typeName)))
  | "reverse", [] => some (funcReverse v)
  | "contains", [x] => some (funcContains v x)
  | "inside", [x] => some (funcInside v x)
  | "indices", [x] => some (indexFunc .all v x)
  | "index", [x] => some (indexFunc .first v x)
  | "rindex", [x] => some (indexFunc .last v x)
  | "startswith", [x] => some (funcStartsWith v x)
  | "endswith", [x] => some (funcEndsWith v x)
  | "ltrimstr", [x] => some (funcLtrimstr v x)
  | "rtrimstr", [x] => some (funcRtrimstr v x)
  | "trimstr", [x] => some (funcTrimstr v x)
  | "ltrim", [] => some (funcLtrim v)
  | "rtrim", [] => some (funcRtrim v)
  | "trim", [] => some (funcTrim v)
  | "explode", [] => some (funcExplode v)
  | "implode", [] => some (funcImplode v)
  | "split", [x] => some (funcSplit v x)
  | "join", [x] => some (funcJoin v x)
  | "ascii_downcase", [] => some (funcAsciiDowncase v)
  | "ascii_upcase", [] => some (funcAsciiUpcase v)
  | "tojson", [] => some (funcToJSON v)
  | "fromjson", [] => some (funcFromJSON v)
  | "format", [x] => some (funcFormat v x)
  | "_tohtml", [] => some (funcToHTML v)
  | "_touri", [] => some (funcToURI v)
  | "_tourid", [] => some (funcToURId v)
  | "_tocsv", [] => some (funcToCSV v)
  | "_totsv", [] => some (funcToTSV v)
  | "_tosh", [] => some (funcToSh v)
  | "_tobase64", [] => some (funcToBase64 v)
  | "_tobase64d", [] => some (funcToBase64d v)
  | "flatten", [] => some (funcFlatten v [])
  | "flatten", [d] => some (funcFlatten v [d])
  | "min", [] => some (funcMin v)
  | "max", [] => some (funcMax v)
  | "_min_by", [x] => some (liftSort "min_by" true v x (minMaxBy true v x))
  | "_max_by", [x] => some (liftSort "max_by" true v x (minMaxBy false v x))
  | "sort", [] => some (liftSort "sort" false v v (sort v))
  | "_sort_by", [x] => some (liftSort "sort_by" true v x (sortBy v x))
  | "_group_by", [x] => some (liftSort "group_by" true v x (groupBy v x))
  | "unique", [] => some (liftSort "unique" false v v (uniqueBy v v))
  | "_unique_by", [x] => some (liftSort "unique_by" true v x (uniqueBy v x))
  | "frexp", [] => math0 "frexp" (fun n => let r := ffrexp n; some (.arr [.num r.1, jvInt r.2])) v
  | "modf", [] => math0 "modf" (fun n => let r := fmodf n; some (.arr [.num r.1, .num r.2])) v
  | "fma", [a, b, c] => math3 "fma" a b c
  | "infinite", [] => some (pure (.num (.inf false)))
  | "nan", [] => some (pure (.num .nan))
  | "isnan", [] => some (match v with
      | .num n => pure (.bool n.toFlt.isNaN)
      | .null => pure (.bool false)
      | v => throw (errFunc0 "isnan" v))
  | "isinfinite", [] => some (pure (.bool (match v with | .num n => fisinf n.toFlt | _ => false)))
  | "isfinite", [] => some (pure (.bool (match v with | .num n => !fisinf n.toFlt | _ => false)))
  | "isnormal", [] => some (pure (.bool (match v with | .num n => fisnormal n.toFlt | _ => false)))
  | "setpath", [p, n] => some (funcSetpath v p n)
  | "delpaths", [p] => some (funcDelpaths v p)
  | "getpath", [p] => some (funcGetpath v p)
  | "transpose", [] => some (funcTranspose v)
  | "bsearch", [t] => some (funcBsearch v t)
  | "gmtime", [] => some (funcGmtime v)
  | "mktime", [] => some (funcMktime v)
  | "localtime", [] => (match v with | .num _ => none | v => some (throw (errFunc0 "localtime" v)))
  | "strftime", [x] => (strftimeDispatch "strftime" true v x).map throw
  | "strflocaltime", [x] => (strftimeDispatch "strflocaltime" false v x).map throw
  | "strptime", [x] => (match v, x with | .str _, .str _ => none | v, x => some (throw (errFunc1 "strptime" v x)))
  | "error", [] => some (throw (.user v))
  | "error", [x] => some (throw (.user x))
  | "halt", [] => some (throw (.halt .null 0))
  | "halt_error", [] => some (throw (.halt v 5))
  | "halt_error", [x] => some (match toInt? x with
      | some code => throw (.halt v code)
      | none => throw (errFunc0 "halt_error" x))
  | name, args =>
    if mathFunc1Names.contains name then
      match args with
      | [] => math0 name (fun n => (mathFn1 name n).map .num) v
      | _ => none
    else if mathFunc2Names.contains name then
      match args with
      | [x, y] => math2 name x y
      | _ => none
    else none

end Gojq

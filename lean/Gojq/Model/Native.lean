/-
  Native functions of func.go / operator.go at value level (DESIGN §3.2, C03): each is a
  transliteration of the Go type switch including WHICH error is raised.  Natives that are
  not modelled answer `none` from `callNative`, which the evaluator turns into the explicit
  outcome `unmodelled` (never into a value).
-/
import Gojq.Model.Arith
import Gojq.Model.Compare
import Gojq.Model.Sort
import Gojq.Model.Utf8
import Gojq.Model.Encode
namespace Gojq

/-- errors as values flowing through the evaluator -/
inductive Err where
  /-- `error(v)`: an `exitCodeError` (a `ValueError`; `catch` yields `v`) -/
  | user (v : JV)
  /-- a built-in error: class plus the values its message is built from -/
  | builtin (kind : String) (args : List JV)
  /-- `break $label` with the identity of the label instance -/
  | brk (id : Nat)
  /-- `halt` / `halt_error` -/
  | halt (v : JV) (code : Int)
  deriving Inhabited

abbrev NRes := Except Err JV

def B (s : String) : Bytes := Bytes.ofString s

/-! ### Preview / error messages (preview.go, error.go) -/

/-- `Preview(v)`: the encoder's output cut at 32 bytes, truncated to 30 with a trailing marker.
    `none` when the value contains a float whose digits the encoder model does not produce. -/
def preview (v : JV) : Option Bytes :=
  if !Encode.modelled v then none else
  let full := Encode.encodeValue v
  let bs := full.take 32
  if bs.length ≤ 30 then some bs else
  let trailing : Bytes := match v with
    | .str _ => B " ...\""
    | .arr _ => B " ...]"
    | .obj _ => B " ...}"
    | _ => B " ..."
  -- drop whole runes from the end until it fits (utf8.DecodeLastRune: an invalid tail byte counts 1)
  let limit := 30 - trailing.length
  let rec cut (fuel : Nat) (bs : Bytes) : Bytes :=
    match fuel with
    | 0 => bs
    | fuel + 1 =>
      if bs.length ≤ limit then bs else
      -- size of the last rune
      let n := bs.length
      let tryW (w : Nat) : Bool :=
        w ≤ n && (let t := bs.drop (n - w); let (_, w', ok) := Utf8.decodeRune t; ok && w' == w)
      let size := if tryW 1 then 1 else if tryW 2 then 2 else if tryW 3 then 3 else if tryW 4 then 4 else 1
      cut fuel (bs.take (n - size))
  some (cut 40 bs ++ trailing)

def typeErrorPreview (v : JV) : Option Bytes :=
  match v with
  | .null => some (B "null")
  | v => (preview v).map fun p => B v.typeName ++ B " (" ++ p ++ B ")"

/-- the text of a built-in error (`Error()`), when the model computes it -/
def Err.message : Err → Option Bytes
  | .builtin kind args =>
    let tp (v : JV) := typeErrorPreview v
    match kind, args with
    | "expectedObject", [v] => (tp v).map (B "expected an object but got: " ++ ·)
    | "expectedArray", [v] => (tp v).map (B "expected an array but got: " ++ ·)
    | "iterator", [v] => (tp v).map (B "cannot iterate over: " ++ ·)
    | "objectKeyNotString", [v] => (tp v).map (B "expected a string for object key but got: " ++ ·)
    | "arrayIndexNotNumber", [v] => (tp v).map (B "expected a number for indexing an array but got: " ++ ·)
    | "stringIndexNotNumber", [v] => (tp v).map (B "expected a number for indexing a string but got: " ++ ·)
    | "expectedStartEnd", [v] => (tp v).map (B "expected \"start\" and \"end\" for slicing but got: " ++ ·)
    | "invalidPath", [v] => (tp v).map (B "invalid path against: " ++ ·)
    | "invalidPathIter", [v] => (tp v).map (B "invalid path on iterating against: " ++ ·)
    | "unary", [.str name, v] => (tp v).map (B "cannot " ++ name ++ B ": " ++ ·)
    | "binop", [.str name, l, r] => do
      let a ← tp l; let b ← tp r
      pure (B "cannot " ++ name ++ B ": " ++ a ++ B " and " ++ b)
    | "zeroDivision", [l, r] => do
      let a ← tp l; let b ← tp r
      pure (B "cannot divide " ++ a ++ B " by: " ++ b)
    | "zeroModulo", [l, r] => do
      let a ← tp l; let b ← tp r
      pure (B "cannot modulo " ++ a ++ B " by: " ++ b)
    | "func0", [.str name, v] => (tp v).map (name ++ B " cannot be applied to: " ++ ·)
    | "func1", [.str name, v, w] => do
      let a ← tp v; let p ← preview w
      pure (name ++ B "(" ++ p ++ B ") cannot be applied to: " ++ a)
    | "func2", [.str name, v, w, x] => do
      let a ← tp v; let p ← preview w; let q ← preview x
      pure (name ++ B "(" ++ p ++ B "; " ++ q ++ B ") cannot be applied to: " ++ a)
    | _, _ => none
  | _ => none

def errExpectedObject (v : JV) : Err := .builtin "expectedObject" [v]
def errExpectedArray (v : JV) : Err := .builtin "expectedArray" [v]
def errFunc0 (name : String) (v : JV) : Err := .builtin "func0" [.str (B name), v]
def errFunc1 (name : String) (v w : JV) : Err := .builtin "func1" [.str (B name), v, w]
def errBinop (name : String) (l r : JV) : Err := .builtin "binop" [.str (B name), l, r]

/-! ### numeric conversions (func.go: toInt, toIntCeil, toFloat) -/

/-- `toInt`: saturating conversion to Go `int` -/
def toInt? : JV → Option Int
  | .num (.int z) => some (if z < minInt then minInt else if z > maxInt then maxInt else z)
  | .num n => some (floatToInt n)
  | _ => none

/-- `math.Ceil` on a float carrier -/
def fceil : Num → Num
  | .flt q => let c := q.ceil; if c == 0 && q < 0 then .nzero else .flt (c : Rat)
  | n => n

def ffloor : Num → Num
  | .flt q => .flt (q.floor : Rat)
  | n => n

def toIntCeil? : JV → Option Int
  | .num (.int z) => toInt? (.num (.int z))
  | .num n => some (floatToInt (fceil n))
  | _ => none

def toFloat? : JV → Option Num
  | .num n => some n.toFlt
  | _ => none

/-- `clampIndex(i, minimum, maximum)` -/
def clampIndex (i minimum maximum : Int) : Int :=
  let i := if i < 0 then wrap64 (i + maximum) else i
  if i < minimum then minimum else if i < maximum then i else maximum

/-! ### indexing and slicing (funcIndex2, index, indexString, funcSlice, slice, sliceString) -/

def jvInt (z : Int) : JV := .num (.int z)

def indexArr (vs : List JV) (i : Int) : JV :=
  let i := clampIndex i (-1) vs.length
  if 0 ≤ i ∧ i < vs.length then vs.getD i.toNat .null else .null

def indexStr (s : Bytes) (i : Int) : JV :=
  let rs := Utf8.runes s
  let i := clampIndex i (-1) rs.length
  if 0 ≤ i ∧ i < rs.length then .str (Utf8.encodeRune (rs.getD i.toNat 0)) else .null

def sliceBounds (len : Nat) (e s : JV) (mkErr : JV → Err) : Except Err (Nat × Nat) := do
  let start ← match s with
    | .null => pure 0
    | s => match toInt? s with
      | some i => pure (clampIndex i 0 len)
      | none => throw (mkErr s)
  let end_ ← match e with
    | .null => pure (len : Int)
    | e => match toIntCeil? e with
      | some i => pure (clampIndex i start len)
      | none => throw (mkErr e)
  pure (start.toNat, end_.toNat)

/-- byte offset of the `k`-th rune boundary of `s` (k ≤ number of runes) -/
def runeOffset (s : Bytes) (k : Nat) : Nat :=
  let rec go (fuel : Nat) (s : Bytes) (k off : Nat) : Nat :=
    match fuel, k, s with
    | 0, _, _ => off
    | _, 0, _ => off
    | _, _, [] => off
    | fuel + 1, k + 1, s =>
      let (_, w, _) := Utf8.decodeRune s
      let w := max w 1
      go fuel (s.drop w) k (off + w)
  go (s.length + 1) s k 0

def funcSlice (v e s : JV) : NRes :=
  match v with
  | .null => pure .null
  | .arr vs => do
    let (a, b) ← sliceBounds vs.length e s (fun x => .builtin "arrayIndexNotNumber" [x])
    pure (.arr ((vs.drop a).take (b - a)))
  | .str str => do
    let l := (Utf8.runes str).length
    let (a, b) ← sliceBounds l e s (fun x => .builtin "stringIndexNotNumber" [x])
    let sa := if a < l then runeOffset str a else str.length
    let sb := if b < l then runeOffset str b else str.length
    pure (.str ((str.drop sa).take (sb - sa)))
  | v => throw (errExpectedArray v)

/-- positions at which `xs` occurs in `vs` (`indices`) -/
def indicesArr (vs xs : List JV) : List JV :=
  if xs.isEmpty then [] else
  let rec go (fuel : Nat) (vs : List JV) (i : Nat) (acc : List JV) : List JV :=
    match fuel, vs with
    | 0, _ => acc.reverse
    | _, [] => acc.reverse
    | fuel + 1, v :: rest =>
      let here : Bool := decide ((v :: rest).length ≥ xs.length) &&
        (((v :: rest).take xs.length).zip xs).all (fun (a, b) => cmp a b == .eq)
      go fuel rest (i + 1) (if here then jvInt (i : Nat) :: acc else acc)
  go (vs.length + 1) vs 0 []

/-- `funcIndex2(_, v, x)`: `v[x]` -/
def funcIndex2 (v x : JV) : NRes :=
  match x with
  | .str k =>
    match v with
    | .null => pure .null
    | .obj kvs => pure ((kvLookup k kvs).getD .null)
    | v => throw (errExpectedObject v)
  | .num _ =>
    let i := (toInt? x).getD 0
    match v with
    | .null => pure .null
    | .arr vs => pure (indexArr vs i)
    | .str s => pure (indexStr s i)
    | v => throw (errExpectedArray v)
  | .arr xs =>
    match v with
    | .null => pure .null
    | .arr vs => pure (.arr (indicesArr vs xs))
    | v => throw (errExpectedArray v)
  | .obj kvs =>
    match v with
    | .null => pure .null
    | v =>
      match kvLookup (B "start") kvs, kvLookup (B "end") kvs with
      | some s, some e => funcSlice v e s
      | _, _ => throw (.builtin "expectedStartEnd" [x])
  | x =>
    match v with
    | .arr _ => throw (.builtin "arrayIndexNotNumber" [x])
    | .str _ => throw (.builtin "stringIndexNotNumber" [x])
    | _ => throw (.builtin "objectKeyNotString" [x])

/-! ### operators on values (operator.go) -/

def isFalsy : JV → Bool
  | .null => true | .bool false => true | _ => false

mutual
  /-- `deepMergeObjects(l, r)` -/
  def deepMerge : List (Bytes × JV) → List (Bytes × JV) → List (Bytes × JV)
    | l, [] => l
    | l, (k, v) :: rest =>
      let v' := match kvLookup k l, v with
        | some (.obj lk), .obj rv => JV.obj (deepMergeFuel lk rv)
        | _, v => v
      deepMerge (kvInsert k v' l) rest
  /-- the recursive call goes through a structurally smaller right operand -/
  def deepMergeFuel : List (Bytes × JV) → List (Bytes × JV) → List (Bytes × JV)
    | l, [] => l
    | l, (k, v) :: rest =>
      let v' := match kvLookup k l, v with
        | some (.obj lk), .obj rv => JV.obj (deepMergeFuel lk rv)
        | _, v => v
      deepMergeFuel (kvInsert k v' l) rest
end

/-- `repeatString(s, n)` -/
def repeatString (s : Bytes) (n : Num) : NRes :=
  -- lt(n, 0): n < 0 || isNaN(n)
  if fltLt n (.flt 0) || n.isNaN then pure .null else
  let c : Int := match n with
    | .inf _ => 2147483647
    | n => let i := floatToInt n; if i > 2147483647 then 2147483647 else i
  if (s.length : Int) * c ≥ 2147483647 then throw (.builtin "repeatStringTooLarge" [.str s, .num n])
  else if s.isEmpty then pure (.str [])
  else if (s.length : Int) * c > 1000000 then throw (.builtin "UNMODELLED" [])   -- too large to materialise in the model
  else pure (.str (List.replicate c.toNat s).flatten)

def opAdd (l r : JV) : NRes :=
  match l, r with
  | .num a, .num b => pure (.num (opAddNum a b))
  | .str a, .str b => pure (.str (a ++ b))
  | .arr a, .arr b => pure (.arr (a ++ b))
  | .obj a, .obj b => pure (.obj (b.foldl (fun acc (k, v) => kvInsert k v acc) a))
  | .null, r => pure r
  | l, .null => pure l
  | l, r => throw (errBinop "add" l r)

def opSub (l r : JV) : NRes :=
  match l, r with
  | .num a, .num b => pure (.num (opSubNum a b))
  | .arr a, .arr b => pure (.arr (a.filter fun x => !(b.any fun y => cmp x y == .eq)))
  | l, r => throw (errBinop "subtract" l r)

def opMul (l r : JV) : NRes :=
  match l, r with
  | .num a, .num b => pure (.num (opMulNum a b))
  | .obj a, .obj b => pure (.obj (deepMerge a b))
  | .str s, .num n => repeatString s n.toFlt
  | .num n, .str s => repeatString s n.toFlt
  | l, r => throw (errBinop "multiply" l r)

/-- `strings.Split(l, r)` for `r ≠ ""`; for `r = ""` Go splits after each UTF-8 sequence -/
def splitBytes (s sep : Bytes) : List Bytes :=
  if sep.isEmpty then
    let rec goE (fuel : Nat) (s : Bytes) (acc : List Bytes) : List Bytes :=
      match fuel, s with
      | 0, _ => acc.reverse
      | _, [] => acc.reverse
      | fuel + 1, s =>
        let (_, w, _) := Utf8.decodeRune s
        let w := max w 1
        goE fuel (s.drop w) (s.take w :: acc)
    goE (s.length + 1) s []
  else
    let rec go (fuel : Nat) (s cur : Bytes) (acc : List Bytes) : List Bytes :=
      match fuel, s with
      | 0, _ => (cur.reverse :: acc).reverse
      | _, [] => (cur.reverse :: acc).reverse
      | fuel + 1, c :: rest =>
        if (c :: rest).take sep.length == sep then go fuel ((c :: rest).drop sep.length) [] (cur.reverse :: acc)
        else go fuel rest (c :: cur) acc
    go (s.length + 1) s [] []

def opDiv (l r : JV) : NRes :=
  match l, r with
  | .num a, .num b =>
    match opDivNum a b with
    | .ok n => pure (.num n)
    | .error _ => throw (.builtin "zeroDivision" [l, r])
  | .str a, .str b => if a.isEmpty then pure (.arr []) else pure (.arr ((splitBytes a b).map .str))
  | l, r => throw (errBinop "divide" l r)

def opMod (l r : JV) : NRes :=
  match l, r with
  | .num a, .num b =>
    match opModNum a b with
    | .ok n => pure (.num n)
    | .error _ => throw (.builtin "zeroModulo" [l, r])
  | l, r => throw (errBinop "modulo" l r)

/-! ### assorted natives -/

def keysOf : JV → Option (List JV)
  | .arr vs => some ((List.range vs.length).map fun i => jvInt (i : Nat))
  | .obj kvs => some (kvs.map fun (k, _) => .str k)
  | _ => none

def valuesOf : JV → Option (List JV)
  | .arr vs => some vs
  | .obj kvs => some (kvs.map (·.2))
  | _ => none

/-- `add` (func.go): a left fold with `funcOpAdd`, nulls skipped -/
def addAll (xs : List JV) : NRes :=
  xs.foldlM (fun acc x => match x with
    | .null => pure acc
    | x => opAdd acc x) .null

mutual
  /-- `flatten(xs, vs, depth)` with depth as an exact rational (−1 = unlimited) -/
  def flattenAux (depth : Rat) : List JV → List JV
    | [] => []
    | v :: rest =>
      (match v with
        | .arr vs => if depth != 0 then flattenAuxList (depth - 1) vs else [v]
        | v => [v]) ++ flattenAux depth rest
  def flattenAuxList (depth : Rat) : List JV → List JV
    | [] => []
    | v :: rest =>
      (match v with
        | .arr vs => if depth != 0 then flattenAuxList (depth - 1) vs else [v]
        | v => [v]) ++ flattenAuxList depth rest
end

mutual
  /-- `funcContains` -/
  def contains : JV → JV → Option Bool
    | .arr l, .arr r => some (containsAll l r)
    | .obj l, .obj r => some (containsObj l r)
    | .str l, .str r => some (bytesContains l r)
    | l, r => if typeIndex l == typeIndex r || (l matches .bool _) && (r matches .bool _) then
        some (cmp l r == .eq) else none
  def containsAll (l : List JV) : List JV → Bool
    | [] => true
    | r :: rs => containsAny r l && containsAll l rs
  def containsAny (r : JV) : List JV → Bool
    | [] => false
    | x :: xs => (match contains x r with | some true => true | _ => false) || containsAny r xs
  def containsObj (l : List (Bytes × JV)) : List (Bytes × JV) → Bool
    | [] => true
    | (k, rv) :: rs =>
      (match kvLookup k l with
        | some lv => (match contains lv rv with | some true => true | _ => false)
        | none => false) && containsObj l rs
  def bytesContains (l r : Bytes) : Bool :=
    r.isEmpty || (List.range (l.length + 1)).any fun i => (l.drop i).take r.length == r
end

def hasPrefix (s p : Bytes) : Bool := s.take p.length == p
def hasSuffix (s p : Bytes) : Bool := p.length ≤ s.length && s.drop (s.length - p.length) == p

/-- value-level `getpath` (funcGetpath) -/
def getpath (v : JV) (path : List JV) : NRes :=
  path.foldlM (fun cur x =>
    match cur with
    | .null | .arr _ | .obj _ => funcIndex2 cur x
    | _ => throw (.builtin "getpathType" [])) v

/-- `_range` outputs: `value, value+step, …` while `Compare(step,0)*Compare(value,end) < 0` -/
def rangeList (fuel : Nat) (value end_ step : JV) : Option (List JV) :=
  let sgn (o : Ordering) : Int := match o with | .lt => -1 | .eq => 0 | .gt => 1
  let rec go (fuel : Nat) (value : JV) (acc : List JV) : Option (List JV) :=
    match fuel with
    | 0 => none
    | fuel + 1 =>
      if sgn (cmp step (jvInt 0)) * sgn (cmp value end_) ≥ 0 then some acc.reverse
      else match opAdd value step with
        | .ok next => go fuel next (value :: acc)
        | .error _ => none
  go fuel value []

/-- strict number literal → value (`toNumber` / `parseNumber` on a jq number token) -/
def parseNumberLit (text : String) : Option Num :=
  let cs := text.toList
  let (neg, cs) := match cs with | '-' :: r => (true, r) | '+' :: r => (false, r) | r => (false, r)
  let digits (cs : List Char) : List Char × List Char := cs.span Char.isDigit
  let (ip, rest) := digits cs
  let (fp, rest) := match rest with
    | '.' :: r => digits r
    | r => ([], r)
  let hasDot := match cs.drop ip.length with | '.' :: _ => true | _ => false
  let (hasExp, expNeg, ep, rest) := match rest with
    | 'e' :: '-' :: r | 'E' :: '-' :: r => let (d, r') := digits r; (true, true, d, r')
    | 'e' :: '+' :: r | 'E' :: '+' :: r => let (d, r') := digits r; (true, false, d, r')
    | 'e' :: r | 'E' :: r => let (d, r') := digits r; (true, false, d, r')
    | r => (false, false, [], r)
  if !rest.isEmpty || (ip.isEmpty && fp.isEmpty) || (hasExp && ep.isEmpty) then none else
  let toNat (ds : List Char) : Nat := ds.foldl (fun a c => a * 10 + (c.toNat - '0'.toNat)) 0
  if !hasDot && !hasExp then
    let z : Int := toNat ip
    some (.int (if neg then -z else z))
  else
    let mant : Nat := toNat (ip ++ fp)
    let e : Int := (if expNeg then -(toNat ep : Int) else (toNat ep : Int)) - fp.length
    -- guard against astronomically large exponents (result is 0 or ±Inf anyway)
    if mant == 0 then some (if neg then .nzero else .flt 0)
    else if e > 400 then some (.inf neg)
    else if e < -800 - (ip ++ fp).length then some (if neg then .nzero else .flt 0)
    else
      let q : Rat := (mant : Rat) * (10 : Rat) ^ e
      some (roundRat (if neg then -q else q))

/-- `tostring` on a non-string / `tojson`: the library encoder (none: float digits unmodelled) -/
def toJsonBytes (v : JV) : Option Bytes :=
  if Encode.modelled v then some (Encode.encodeValue v) else none

/-- result of trying a native: `none` = this native (or this argument shape) is not modelled -/
def callNative (name : String) (v : JV) (args : List JV) : Option NRes :=
  match name, args with
  | "_add", [l, r] => some (opAdd l r)
  | "_subtract", [l, r] => some (opSub l r)
  | "_multiply", [l, r] => some (opMul l r)
  | "_divide", [l, r] => some (opDiv l r)
  | "_modulo", [l, r] => some (opMod l r)
  | "_alternative", [l, r] => some (pure (if isFalsy l then r else l))
  | "_equal", [l, r] => some (pure (.bool (opEq l r)))
  | "_notequal", [l, r] => some (pure (.bool (opNe l r)))
  | "_greater", [l, r] => some (pure (.bool (opGt l r)))
  | "_less", [l, r] => some (pure (.bool (opLt l r)))
  | "_greatereq", [l, r] => some (pure (.bool (opGe l r)))
  | "_lesseq", [l, r] => some (pure (.bool (opLe l r)))
  | "_plus", [] => some (match v with | .num _ => pure v | v => throw (.builtin "unary" [.str (B "plus"), v]))
  | "_negate", [] => some (match v with | .num n => pure (.num (opNegNum n)) | v => throw (.builtin "unary" [.str (B "negate"), v]))
  | "_index", [x, i] => some (funcIndex2 x i)
  | "_slice", [x, e, s] => some (funcSlice x e s)
  | "abs", [] => some (match v with | .num n => pure (.num (absNum n)) | v => throw (errFunc0 "abs" v))
  | "length", [] => some (match v with
      | .null => pure (jvInt 0)
      | .num n => pure (.num (absNum n))
      | .str s => pure (jvInt (Utf8.runes s).length)
      | .arr xs => pure (jvInt xs.length)
      | .obj kvs => pure (jvInt kvs.length)
      | v => throw (errFunc0 "length" v))
  | "utf8bytelength", [] => some (match v with | .str s => pure (jvInt s.length) | v => throw (errFunc0 "utf8bytelength" v))
  | "keys", [] => some (match keysOf v with | some ks => pure (.arr ks) | none => throw (errFunc0 "keys" v))
  | "has", [x] => some (match v, x with
      | .arr vs, x => (match toInt? x with
        | some i => pure (.bool (0 ≤ i ∧ i < vs.length))
        | none => throw (errFunc1 "has" v x))
      | .obj kvs, .str k => pure (.bool (kvLookup k kvs).isSome)
      | .null, _ => pure (.bool false)
      | v, x => throw (errFunc1 "has" v x))
  | "add", [] => some (match valuesOf v with | some xs => addAll xs | none => throw (errFunc0 "add" v))
  | "type", [] => some (pure (.str (B v.typeName)))
  | "reverse", [] => some (match v with
      | .null => pure (.arr [])
      | .arr xs => pure (.arr xs.reverse)
      | .str s => pure (.str (Utf8.encodeRunes (Utf8.runes s).reverse))
      | v => throw (errFunc0 "reverse" v))
  | "contains", [x] => some (match contains v x with | some b => pure (.bool b) | none => throw (errFunc1 "contains" v x))
  | "inside", [x] => some (match contains x v with | some b => pure (.bool b) | none => throw (errFunc1 "contains" x v))
  | "startswith", [x] => some (match v, x with | .str s, .str p => pure (.bool (hasPrefix s p)) | v, x => throw (errFunc1 "startswith" v x))
  | "endswith", [x] => some (match v, x with | .str s, .str p => pure (.bool (hasSuffix s p)) | v, x => throw (errFunc1 "endswith" v x))
  | "ltrimstr", [x] => some (match v, x with | .str s, .str p => pure (.str (if hasPrefix s p then s.drop p.length else s)) | v, _ => pure v)
  | "rtrimstr", [x] => some (match v, x with | .str s, .str p => pure (.str (if hasSuffix s p then s.take (s.length - p.length) else s)) | v, _ => pure v)
  | "tostring", [] => some (match v with
      | .str _ => pure v
      | v => match toJsonBytes v with | some b => pure (.str b) | none => throw (.builtin "UNMODELLED" []))
  | "tojson", [] => some (match toJsonBytes v with | some b => pure (.str b) | none => throw (.builtin "UNMODELLED" []))
  | "flatten", [] => some (match valuesOf v with | some xs => pure (.arr (flattenAux (-1) xs)) | none => throw (errFunc0 "flatten" v))
  | "flatten", [d] => some (match valuesOf v with
      | none => throw (errFunc0 "flatten" v)
      | some xs => match toFloat? d with
        | none => throw (errFunc0 "flatten" d)
        | some (.flt q) => if q < 0 then throw (.builtin "flattenDepth" [d]) else pure (.arr (flattenAux q xs))
        | some .nzero => pure (.arr (flattenAux 0 xs))
        | some (.inf false) => pure (.arr (flattenAux (-1) xs))
        | some _ => throw (.builtin "flattenDepth" [d]))
  | "min", [] => some (match v with
      | .arr _ => (match minMaxBy true v v with | .ok r => pure r | .error _ => throw (errFunc0 "min" v))
      | v => throw (errFunc0 "min" v))
  | "max", [] => some (match v with
      | .arr _ => (match minMaxBy false v v with | .ok r => pure r | .error _ => throw (errFunc0 "max" v))
      | v => throw (errFunc0 "max" v))
  | "sort", [] => some (match sort v with | .ok r => pure r | .error _ => throw (errFunc0 "sort" v))
  | "_sort_by", [x] => some (match sortBy v x with | .ok r => pure r | .error _ => throw (errFunc1 "sort_by" v x))
  | "unique", [] => some (match uniqueBy v v with | .ok r => pure r | .error _ => throw (errFunc0 "unique" v))
  | "_unique_by", [x] => some (match uniqueBy v x with | .ok r => pure r | .error _ => throw (errFunc1 "unique_by" v x))
  | "_group_by", [x] => some (match groupBy v x with | .ok r => pure r | .error _ => throw (errFunc1 "group_by" v x))
  | "_min_by", [x] => some (match minMaxBy true v x with | .ok r => pure r | .error _ => throw (errFunc1 "min_by" v x))
  | "_max_by", [x] => some (match minMaxBy false v x with | .ok r => pure r | .error _ => throw (errFunc1 "max_by" v x))
  | "getpath", [p] => some (match p with
      | .arr path => (match getpath v path with
        | .ok r => pure r
        | .error _ => throw (errFunc1 "getpath" v p))
      | p => throw (errFunc1 "getpath" v p))
  | "error", [] => some (throw (.user v))
  | "error", [x] => some (throw (.user x))
  | "halt", [] => some (throw (.halt .null 0))
  | "not", [] => none
  | "infinite", [] => some (pure (.num (.inf false)))
  | "nan", [] => some (pure (.num .nan))
  | "isnan", [] => some (match v with | .num n => pure (.bool n.toFlt.isNaN) | v => throw (errFunc0 "isnan" v))
  | "isinfinite", [] => some (match v with | .num n => pure (.bool (match n.toFlt with | .inf _ => true | _ => false)) | v => throw (errFunc0 "isinfinite" v))
  | "isfinite", [] => some (match v with | .num n => pure (.bool (match n.toFlt with | .inf _ => false | _ => true)) | v => throw (errFunc0 "isfinite" v))
  | "explode", [] => some (match v with | .str s => pure (.arr ((Utf8.runes s).map fun r => jvInt (r : Nat))) | v => throw (errFunc0 "explode" v))
  | "ascii_downcase", [] => some (match v with
      | .str s => pure (.str (s.map fun c => if 65 ≤ c.toNat ∧ c.toNat ≤ 90 then c + 32 else c))
      | v => throw (errFunc0 "ascii_downcase" v))
  | "ascii_upcase", [] => some (match v with
      | .str s => pure (.str (s.map fun c => if 97 ≤ c.toNat ∧ c.toNat ≤ 122 then c - 32 else c))
      | v => throw (errFunc0 "ascii_upcase" v))
  | "floor", [] => some (match v with | .num n => pure (.num (ffloor n.toFlt)) | v => throw (errFunc0 "floor" v))
  | "ceil", [] => some (match v with | .num n => pure (.num (fceil n.toFlt)) | v => throw (errFunc0 "ceil" v))
  | "fabs", [] => some (match v with | .num n => pure (.num (fabs n.toFlt)) | v => throw (errFunc0 "fabs" v))
  | "toboolean", [] => some (match v with
      | .bool _ => pure v
      | .str s => if s == B "true" then pure (.bool true) else if s == B "false" then pure (.bool false)
        else throw (errFunc0 "toboolean" v)
      | v => throw (errFunc0 "toboolean" v))
  | _, _ => none

end Gojq

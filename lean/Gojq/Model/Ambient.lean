/-
  C19 on the interpreter model: where ambient state can enter a run.  Core Lean only.

  Model/VM.lean takes every native answer from an oracle (`ExtRec`).  Here the oracle of a run is
  DERIVED from a semantics of the natives that may read a world (`Sem`, `World` abstract): at every
  turn the request the instruction is about to make — the callback of an `opcall [3]any` with the
  actual operands on the stack, `funcIndex2` of `opindex`/`opindexarray`, `Next()` of a Go iterator
  — is computed from the machine state (`requestOf`), answered by the semantics (`answer`), and the
  record so obtained is what `VM.step` (used literally) consults (`stepW`).  Nothing else of the
  world reaches the run.

  The static side: the interpreter instruction `Instr.callNative kind argc` carries no name (the
  loop only looks at the three path-tracking kinds), so code is paired with the native names of
  the dump (`NCode`, `calln <name> <argc>` of `VerifCodes`).  `isPure` — the (name, arity) pairs
  a call site may carry for the table to say "this callback touches no ambient state" — is
  COMPUTED from the regenerated `Generated/NativeTable.lean` (name → Go callee) and
  `Generated/Facts.lean` (which Go functions touch os.*, time.Now, time.Local, third-party code,
  the module loader), plus two short transcriptions from compiler.go that the tables cannot give
  (`compilerMethods`, `handWritten`); `ambientNames` is the complement inside the table.
-/
import Gojq.Model.VM
import Gojq.Model.Optimize
import Gojq.Generated.Facts
import Gojq.Generated.NativeTable
namespace Gojq.Ambient
open Gojq Gojq.VM Gojq.Generated

/-! ## 1. the ambient set, from the regenerated tables -/

/-- Go functions of package gojq that touch ambient state (directly or through functions of
    their own file: `Facts.ambientClosure`) or call code outside the standard library
    (`Facts.thirdPartyUses`: timefmt-go, listed, not analysed — conservative) -/
def ambientCallees : List String :=
  Facts.ambientClosure.map (·.2.1) ++ Facts.thirdPartyUses.map (·.2.1)

/-- functions of OTHER files that refer to a function of the ambient closure -/
def ambientReferrers : List String := Facts.ambientEntryEdges.map (·.2.1)

/-- TRANSCRIBED from compiler.go `compileFunc`: the natives whose table entry has a nil callback
    (`callee = ""`) and which compile to `opcall [3]any{c.funcX, …}` with a METHOD of the compiler.
    The other nil-callback names never become a native call: `empty` (opbacktrack), `path`
    (oppathbegin/oppathend), `env` (opconst of the WithEnvironLoader pairs, `{}` without the
    option), `debug` (re-dispatch to a custom function, else a compile error).
    `nil_callbacks_accounted` (Props/C19VM.lean) re-checks this split against the table. -/
def compilerMethods : List (String × String) := [
  ("_match", "compiler.funcMatch"),
  ("builtins", "compiler.funcBuiltins"),
  ("input", "compiler.funcInput"),
  ("modulemeta", "compiler.funcModulemeta")]

/-- nil-callback names that never become a native call (see `compilerMethods`) -/
def compiledAway : List String := ["debug", "empty", "env", "path"]

/-- capabilities that are Go interface values handed in by an option and therefore invisible to
    the selector-based fact extraction: `input` calls `c.inputIter.Next()` (WithInputIter; without
    the option `compileFunc` answers `inputNotAllowedError`, so the name cannot occur) -/
def optionCapabilities : List String := ["input"]

/-- a compiler method is ambient when it is, or refers to, a function of the ambient closure
    (`compiler.funcModulemeta` → `moduleLoader.LoadModuleWithMeta`), or is an option capability -/
def methodAmbient (nm : String × String) : Bool :=
  ambientReferrers.contains nm.2 || ambientCallees.contains nm.2 || optionCapabilities.contains nm.1

/-- THE AMBIENT SET: names of the native table through which ambient state can enter -/
def ambientNames : List String :=
  (NativeTable.table.filter fun e => ambientCallees.contains e.callee).map (·.name)
    ++ (compilerMethods.filter methodAmbient).map (·.1)

/-- TRANSCRIBED from compiler.go: call sites emitted with a literal `[3]any{callback, argc, name}`
    outside the table (compileQueryUpdate, compileBreak/compileModify, compileAssign,
    compileModify, compileIndex): (name, argc, Go callback).  `hand_written_not_ambient`
    (Props/C19VM.lean) checks the callbacks against the regenerated facts. -/
def handWritten : List (String × Nat × String) := [
  ("setpath", 2, "funcSetpathWithIndices"),
  ("_index", 2, "funcIndex2"),
  ("_break", 0, "funcBreak"),
  ("_allocator", 0, "funcAllocator"),
  ("_setpath", 3, "funcSetpathWithAllocator"),
  ("_setpath", 3, "funcSetpathOfModify"),
  ("getpath", 2, "funcGetpathWithAllocator"),
  ("_delpaths", 2, "funcDelpathsWithAllocator")]

/-- is the table entry's callback known not to touch ambient state? -/
def entryPure (e : NativeTable.Entry) : Bool :=
  if e.callee == "" then
    match compilerMethods.find? (·.1 == e.name) with
    | some nm => !methodAmbient nm
    | none => false                      -- compiled away, or unknown: never allowed as a call
  else !ambientCallees.contains e.callee

/-- bit `n` of the arity mask (`funcinfo.accept`; the formula of `NativeTable.arities`) -/
def accepts (e : NativeTable.Entry) (n : Nat) : Bool := (e.argcount / 2 ^ n) % 2 == 1

/-- a hand-written call site with this name (and argument count, if given) whose callback the facts
    do not list as ambient -/
def handPure (name : String) (argc : Option Nat) : Bool :=
  handWritten.any fun h => h.1 == name && (match argc with | some k => h.2.1 == k | none => true) &&
    !ambientCallees.contains h.2.2

/-- THE PURE CALL SITES: may a `calln` carry this (name, number of arguments) such that the
    regenerated tables say its callback reads no ambient state?  Either the table has the name, with
    a pure callback, and accepts the arity; or it is a hand-written call site of compiler.go. -/
def isPure (name : String) (argc : Nat) : Bool :=
  (match NativeTable.table.find? (·.name == name) with
   | some e => entryPure e && accepts e argc
   | none => false)
  || handPure name (some argc)

/-- … for some number of arguments -/
def namePure (name : String) : Bool :=
  (match NativeTable.table.find? (·.name == name) with
   | some e => entryPure e
   | none => false)
  || handPure name none

/-! ## 2. code with native names -/

/-- interpreter code paired with the callee name of the dump (`""` where the instruction is not a
    native call) -/
abbrev NCode := Array (Instr × String)

def codeOf (nc : NCode) : Array Instr := nc.map (·.1)

/-- the (name, argument count) key of the call out of the loop an instruction can make:
    a native call site, or `funcIndex2` (the callback of `_index`) for `opindex`/`opindexarray`.
    A negative argument count panics before any call. -/
def callKey : Instr × String → Option (String × Nat)
  | (.callNative _ argc, nm) => if 0 ≤ argc then some (nm, argc.toNat) else none
  | (.index _, _) => some ("_index", 2)
  | (.indexarray _, _) => some ("_index", 2)
  | _ => none

/-- STATIC CHECK: every call site of the code is allowed -/
def callsOnly (allowed : String → Nat → Bool) (nc : NCode) : Bool :=
  nc.all fun p => match callKey p with | some k => allowed k.1 k.2 | none => true

/-- the static hypothesis of `default_noninterference_vm` -/
def ambientFree (nc : NCode) : Bool := callsOnly isPure nc

/-- … with one extra name granted -/
def ambientFreeBut (n : String) (nc : NCode) : Bool := callsOnly (fun nm k => isPure nm k || nm == n) nc

/-! ### the same check on the dumped instruction syntax -/

/-- what the dump shows of a named instruction: `OptVM.view` for everything but native calls,
    which are `calln` with the callee name in `arg` and `[argc]` in `ints` -/
def viewA (p : Instr × String) : Opt.Instr :=
  match p.1 with
  | .callNative _ argc => { op := "calln", arg := p.2, ints := [argc] }
  | .index _ => { op := "index" }
  | .indexarray _ => { op := "indexarray" }
  | .call t => { op := "call", tgt := some t }
  | .scope a b c => { op := "scope", ints := [a, b, c] }
  | _ => { op := "other" }

def callKeyView (i : Opt.Instr) : Option (String × Nat) :=
  if i.op == "calln" then
    match i.ints with
    | [argc] => if 0 ≤ argc then some (i.arg, argc.toNat) else none
    | _ => none
  else if i.op == "index" || i.op == "indexarray" then some ("_index", 2)
  else none

def callsOnlyView (allowed : String → Nat → Bool) (c : Array Opt.Instr) : Bool :=
  c.all fun i => match callKeyView i with | some k => allowed k.1 k.2 | none => true

def ambientFreeView (c : Array Opt.Instr) : Bool := callsOnlyView isPure c

/-- parsing one token `op|tgt|arg` of the dump (`call|_|@name/argc` is a native call); glue for the
    driver, like `SafeVM.parseDump` -/
def parseDump (tok : String) : Option Opt.Instr :=
  match tok.splitOn "|" with
  | [op, _tgt, arg] =>
    if op == "call" && arg.startsWith "@" then
      match ((arg.drop 1).toString).splitOn "/" with
      | [name, argc] =>
        match argc.toInt? with
        | some n => some { op := "calln", arg := name, ints := [n] }
        | none => none
      | _ => none
    else some { op := op }
  | _ => none

/-- the first call site the scan rejects (diagnostic for the driver) -/
def firstOffenderView (allowed : String → Nat → Bool) (c : Array Opt.Instr) : Option (String × Nat) :=
  c.toList.findSome? fun i =>
    match callKeyView i with
    | some k => if allowed k.1 k.2 then none else some k
    | none => none

/-- driver stream `ambientfree`: one dumped instruction list `op|tgt|arg …` -> `free`, or
    `not-free <name>/<argc>` naming the first rejected call site -/
def ambientFreeLine (line : String) : String :=
  let toks := (line.splitOn " ").filter (· ≠ "")
  match toks.mapM parseDump with
  | none => "?parse"
  | some is =>
    let c := is.toArray
    match ambientFreeView c, firstOffenderView isPure c with
    | true, none => "free"
    | false, some k => "not-free " ++ k.1 ++ "/" ++ toString k.2
    | _, _ => "?inconsistent"

/-! ## 3. natives that may read a world -/

/-- what a native callback returns: a value, an error, or a Go `Iter` — the k-th call of whose
    `Next` answers `items k` (the later items are determined by the answer) -/
inductive Answer where
  | val (v : V)
  | err (e : Err)
  | iter (items : Nat → CallRes)

/-- A semantics of the natives over worlds `W` (environment, clock, time zone, files, the inputs
    of WithInputIter, … — abstract) and a hidden deterministic state `H` of the callbacks
    themselves (what a Go run carries besides the interpreter state: the heap identities the
    allocator natives and `pathIntact` look at, the cursor of the input iterator, the regexp
    cache).
    * `native w pc name x args h`: the callback of the call site at `pc` carrying `name`, applied
      to the popped input `x` and arguments `args`.  Keyed by `pc` as well as by the name because
      a name does not determine the callback (`setpath`: `funcSetpath` and
      `funcSetpathWithIndices`; `_break`: one closure per label).
    * `observe h s l`: the two oracle fields that are not calls — the answer of `pathIntact`
      (pointer identity, not expressible on `JV`) and the `typeErrorPreview` text.  They take no
      world BY TYPE: both are computed from interpreter state and Go heap alone. -/
structure Sem (W H : Type) where
  native : W → Nat → String → V → List V → H → Answer × H
  observe : H → St → L → Bool × Bytes

/-- what a run carries besides the interpreter state: the callbacks' hidden state and the live
    Go iterators (items, number of `Next` calls so far); the handle `V.iter k` is a position -/
structure Hid (H : Type) where
  h : H
  iters : List ((Nat → CallRes) × Nat) := []

/-- a call out of the loop -/
inductive Req where
  | native (name : String) (x : V) (args : List V)
  | next (handle : Nat)

/-- `x, args := env.pop(), env.args[:argcnt]; for i := range argcnt { args[i] = env.pop() }`:
    the operands of a native call on the stack of `e` (`none`: the instruction panics first) -/
def operands (argc : Int) (e : Env) : Option (V × List V) :=
  match pop e with
  | .ok x e1 =>
    if argc < 0 ∨ argc > 32 then none else
    match popArgs argc.toNat e1 with
    | .ok args _ => some (x, args)
    | _ => none
  | _ => none

def notArray : V → Bool
  | .jv .null => false
  | .jv (.arr _) => false
  | _ => true

/-- `opindex` / `opindexarray`: `funcIndex2(nil, v, k)` unless backtracking, the stack is empty, or
    `opindexarray` meets a non-array (an error without a call) -/
def indexReq (isArray : Bool) (k : JV) (l : L) (e : Env) : Option Req :=
  if l.backtrack then none else
  match pop e with
  | .ok v _ => if isArray && notArray v then none else some (.native "_index" (.jv .null) [v, .jv k])
  | _ => none

/-- the request the instruction at the current pc makes in this turn, if it makes one — by the
    same tests, in the same order, as `VM.exec` -/
def requestOf (ins : Instr) (nm : String) (l : L) (e : Env) : Option Req :=
  match ins with
  | .callNative _ argc =>
    if l.backtrack then none else
    match operands argc e with
    | some (x, args) => some (.native nm x args)
    | none => none
  | .index k => indexReq false k l e
  | .indexarray k => indexReq true k l e
  | .iter =>
    if l.err.isSome then none else
    match pop e with
    | .ok (.iter h) _ => some (.next h)
    | _ => none
  | _ => none

/-- answer a request in world `w`; an iterator answer is registered under a fresh handle -/
def answer {W H : Type} (sem : Sem W H) (w : W) (pc : Nat) (hid : Hid H) : Option Req → Option CallRes × Hid H
  | none => (none, hid)
  | some (.native nm x args) =>
    match sem.native w pc nm x args hid.h with
    | (.val v, h') => (some (.val v), { hid with h := h' })
    | (.err e, h') => (some (.err e), { hid with h := h' })
    | (.iter items, h') => (some (.val (.iter hid.iters.length)), { h := h', iters := hid.iters ++ [(items, 0)] })
  | some (.next k) =>
    match hid.iters[k]? with
    | some (items, c) => (some (items c), { hid with iters := hid.iters.set k (items, c + 1) })
    | none => (none, hid)

/-- the request of one turn of `VM.step`: none when no instruction is executed (pc out of range,
    context cancelled) -/
def turnRequest (nc : NCode) (cancelled : Nat → Bool) (l : L) (s : St) : Option Req :=
  if 0 ≤ l.pc ∧ l.pc < nc.size ∧ cancelled s.polls = false then
    requestOf (nc.getD l.pc.toNat (.bad, "")).1 (nc.getD l.pc.toNat (.bad, "")).2 l s.env
  else none

/-- the oracle record of one turn, derived from the semantics in world `w`; `pathIntact` and the
    error preview are observed on the hidden state AFTER the call (the loop asks them after the
    callback returned) -/
def recordAt {W H : Type} (sem : Sem W H) (w : W) (nc : NCode) (cancelled : Nat → Bool) (l : L) (s : St)
    (hid : Hid H) : ExtRec × Hid H :=
  let r := answer sem w l.pc.toNat hid (turnRequest nc cancelled l s)
  let o := sem.observe r.2.h s l
  ({ call := r.1, intact := some o.1, preview := o.2 }, r.2)

/-- one turn of the loop of `Next` in world `w`: `VM.step` itself, consulting the derived record -/
def stepW {W H : Type} (sem : Sem W H) (w : W) (nc : NCode) (cancelled : Nat → Bool) (l : L) (s : St)
    (hid : Hid H) : Step × Hid H :=
  let r := recordAt sem w nc cancelled l s hid
  (step ⟨codeOf nc, cancelled, fun _ => r.1⟩ l s, r.2)

/-- `VM.loop` over `stepW` -/
def loopW {W H : Type} (sem : Sem W H) (w : W) (nc : NCode) (cancelled : Nat → Bool) :
    Nat → L → St → Hid H → (Outcome × St) × Hid H
  | fuel, l, s, hid =>
    match stepW sem w nc cancelled l s hid with
    | (.fin o s', hid') => ((o, s'), hid')
    | (.cont l' s', hid') =>
      match fuel with
      | 0 => ((.outOfFuel, s'.save l'.pc), hid')
      | fuel + 1 => loopW sem w nc cancelled fuel l' s' hid'

/-- `(*env).Next` in world `w` -/
def nextW {W H : Type} (sem : Sem W H) (w : W) (nc : NCode) (cancelled : Nat → Bool) (fuel : Nat) (s : St)
    (hid : Hid H) : (Outcome × St) × Hid H :=
  loopW sem w nc cancelled fuel (entry ⟨codeOf nc, cancelled, fun _ => {}⟩ s) s hid

/-- `n` successive calls of `Next` in world `w`: the outcomes, the interpreter state and the
    hidden state afterwards -/
def runW {W H : Type} (sem : Sem W H) (w : W) (nc : NCode) (cancelled : Nat → Bool) (fuel : Nat) :
    Nat → St → Hid H → List Outcome × St × Hid H
  | 0, s, hid => ([], s, hid)
  | n + 1, s, hid =>
    let r := nextW sem w nc cancelled fuel s hid
    let t := runW sem w nc cancelled fuel n r.1.2 r.2
    (r.1.1 :: t.1, t.2)

/-! ## 4. the hypotheses of the noninterference theorems -/

/-- two worlds agree on every callback whose call site carries an allowed (name, argument count):
    same answer, same hidden state afterwards, whatever the operands and the hidden state -/
def Agree {W H : Type} (sem : Sem W H) (allowed : String → Nat → Bool) (w₁ w₂ : W) : Prop :=
  ∀ (pc : Nat) (nm : String) (x : V) (args : List V) (h : H), allowed nm args.length = true →
    sem.native w₁ pc nm x args h = sem.native w₂ pc nm x args h

/-- HYPOTHESIS A — what the regenerated tables say about the code: a callback at a call site
    carrying a pure (name, argument count) reads nothing of the world -/
def TableSound {W H : Type} (sem : Sem W H) : Prop := ∀ w₁ w₂ : W, Agree sem isPure w₁ w₂

/-- HYPOTHESIS B — static, on the code: every call out of the loop the code can make is allowed
    (`callsOnly` decides it) -/
def CallsOnly (allowed : String → Nat → Bool) (nc : NCode) : Prop :=
  ∀ (pc : Nat) (p : Instr × String), nc[pc]? = some p → ∀ k, callKey p = some k → allowed k.1 k.2 = true

/-! ## 5. the records a world-derived run consults, as an oracle of Model/VM.lean -/

/-- does the turn at `l` execute an instruction (read the oracle record of the current poll and
    advance the poll counter)? -/
def polling (nc : NCode) (l : L) : Bool := decide (0 ≤ l.pc ∧ l.pc < nc.size)

/-- the poll-indexed oracle of one call of `Next` in world `w`: the derived record of every turn
    at the poll number of that turn; `dflt` elsewhere -/
def extOfLoop {W H : Type} (sem : Sem W H) (w : W) (nc : NCode) (cancelled : Nat → Bool) (dflt : Nat → ExtRec) :
    Nat → L → St → Hid H → Nat → ExtRec
  | fuel, l, s, hid =>
    let r := recordAt sem w nc cancelled l s hid
    let rest : Nat → ExtRec :=
      match stepW sem w nc cancelled l s hid with
      | (.fin _ _, _) => dflt
      | (.cont l' s', hid') =>
        match fuel with
        | 0 => dflt
        | fuel + 1 => extOfLoop sem w nc cancelled dflt fuel l' s' hid'
    if polling nc l then fun p => if p = s.polls then r.1 else rest p else rest

/-- … of `n` successive calls -/
def extOfRun {W H : Type} (sem : Sem W H) (w : W) (nc : NCode) (cancelled : Nat → Bool) (fuel : Nat) :
    Nat → St → Hid H → Nat → ExtRec
  | 0, _, _ => fun _ => {}
  | n + 1, s, hid =>
    let r := nextW sem w nc cancelled fuel s hid
    extOfLoop sem w nc cancelled (extOfRun sem w nc cancelled fuel n r.1.2 r.2) fuel
      (entry ⟨codeOf nc, cancelled, fun _ => {}⟩ s) s hid

end Gojq.Ambient

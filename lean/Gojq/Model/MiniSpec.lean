/-
  C01 — the tie between the two developments of C01: the translation of the fragment of
  Model/MiniVM.lean (`Q`, `Prog`: what the mini compiler + mini VM are PROVED correct for) into the
  abstract syntax of jq (Model/Syntax.lean `Query`), i.e. into what the full reference evaluator
  `Spec.eval` (Model/Spec.lean) runs and what the `eval` stream compares with the real
  implementation.

  The translation is the text the harness prints for a mini program (harness/c01aux/mini.go
  `(*prog).text`), as an AST without the parentheses:

      def f0(g): <defs[0]>; def f1(g): <defs[1]>; …; <main>

  with `$v<x>` for variable `x`, `g` for the parameter, `f<i>(a)` for a call, `.name` for
  `index "name"`, `.[]`, `empty`, `error`, `[q]`, `try b`, `try b catch h`,
  `if c then a else b end`, `l // r`, `src as $v<x> | body`, `reduce src as $v<x> (init; upd)`,
  `foreach src as $v<x> (init; upd; ext)`, `{(k): v, a: v, …}` (object construction is read by the
  relation `Tr` in the main query, with `delay`s that give the mini reference evaluator the fuel
  `Spec.evalObject` spends per entry — rule `Tr.obj`; `toQuery`/`tieOK` do not produce that form).

  Two things the mini syntax leaves open are fixed here:
    * a constant `const c` is an arbitrary VALUE in the mini fragment; jq has literals only for
      `null`, `true`, `false`, numbers, strings and `[]` — `litOK` says which constants have one
      (and that the number text reads back as the number: `parseNumberLit`, decidable);
    * `index k` takes an arbitrary key; `.name` needs a string.
  What the fragment takes from the host library (`IterMsg`: `funcIndex2` and the two error texts
  `catch` can receive) is instantiated with what `Spec.eval` uses (`specMsg`).

  `toSyntax` is a function, so it picks one jq form per mini construct.  The relation `Tr q A`
  ("the jq query `A` is compiled as the mini query `q`") and its lifting `TrProg` to programs also
  read the jq forms that compiler.go compiles to the instructions of ANOTHER construct of the
  fragment (parentheses, `if` without `else`, `elif`, `and` / `or`, two-argument `foreach`, postfix
  `t[]`, `t.name`, `t?`, `t[]?`, `t.name?`); the theorems of Props/C01Tie.lean are stated for it.
  Core Lean only.
-/
import Gojq.Model.MiniVM
import Gojq.Model.Spec
namespace Gojq.MiniSpec
open Gojq Gojq.MiniVM

/-! ### names -/

/-- the name of function `f`: `f0`, `f1`, … -/
def fname (f : Nat) : String := "f" ++ toString f
/-- the name of variable `x`: `$v0`, `$v1`, … -/
def vname (x : Nat) : String := "$v" ++ toString x
/-- the name of the filter parameter of every function -/
def pname : String := "g"

/-! ### constants -/

/-- the literal denoting a constant (`[]` for the values that have none: excluded by `litOK`) -/
def constCore : V → TermCore
  | .null => .null
  | .bool true => .true_
  | .bool false => .false_
  | .num (.int i) => .number (toString i)
  | .str b => .str (.lit b)
  | _ => .array none

/-- the constant has a literal, and `Spec.eval` reads the literal back as the constant -/
def litOK : V → Bool
  | .null => true
  | .bool _ => true
  | .num (.int i) => match parseNumberLit (toString i) with
    | some (.int j) => i == j
    | _ => false
  | .str _ => true
  | .arr [] => true
  | _ => false

/-! ### queries -/

/-- a term without suffixes as a query without definitions -/
def T (c : TermCore) : Query := .term [] (.mk c [])

def keyBytes : V → Bytes
  | .str b => b
  | _ => []

/-- the entries of an object-construction term -/
def kvsOf : Query → List ObjKV
  | .term _ (.mk (.object kvs) _) => kvs
  | _ => []

/-- the jq abstract syntax of a mini query -/
def toQuery : Q → Query
  | .id => T .identity
  | .const c => T (constCore c)
  | .pipe a b => .binop [] .pipe (toQuery a) (toQuery b)
  | .comma a b => .binop [] .comma (toQuery a) (toQuery b)
  | .iter => .term [] (.mk .identity [.iter])
  | .empty => T (.func "empty" [])
  | .arr q => T (.array (some (toQuery q)))
  | .param => T (.func pname [])
  | .call1 f a => T (.func (fname f) [toQuery a])
  | .error => T (.func "error" [])
  | .try_ b => T (.try_ (toQuery b) none)
  | .tryCatch b h => T (.try_ (toQuery b) (some (toQuery h)))
  | .index k => T (.index (.name (keyBytes k)))
  | .ite c a b => T (.if_ (toQuery c) (toQuery a) [] (some (toQuery b)))
  | .alt l r => .binop [] .alt (toQuery l) (toQuery r)
  | .var x => T (.func (vname x) [])
  | .bind x s b => .bind [] (toQuery s) [.var (vname x)] (toQuery b)
  | .reduce x src init upd => T (.reduce (toQuery src) (.var (vname x)) (toQuery init) (toQuery upd))
  | .foreach x src init upd ext =>
    T (.foreach (toQuery src) (.var (vname x)) (toQuery init) (toQuery upd) (some (toQuery ext)))
  -- `{(k₁): v₁, …}`: the spine is translated to the object term with the entries so far
  | .obj sp => toQuery sp
  | .objStart => T (.object [])
  | .objSnoc init k v => T (.object (kvsOf (toQuery init) ++ [.mk (.query (toQuery k)) (some (toQuery v))]))
  | .objSnocC init key v => T (.object (kvsOf (toQuery init) ++ [.mk (.name (keyBytes key)) (some (toQuery v))]))
  | .delay q => toQuery q

/-! ### reading jq syntax as a mini query

  `toQuery` picks ONE jq form per mini construct.  compiler.go compiles several other forms to the
  very same instructions — parentheses, `if` without `else`, `elif`, `and` / `or` (compiled as nested
  `if`s), the two-argument `foreach`, and the postfix forms `t[]`, `t.name`, `t?`, `t[]?`, `t.name?`
  (compiled as `t | .[]`, …) — and `Spec.eval` gives each of them its own equation.  `Tr q A` says
  that the jq query `A` (without header definitions) is compiled as the mini query `q`. -/

/-- `n` units of extra reference fuel -/
def delayN : Nat → Q → Q
  | 0, q => q
  | n+1, q => .delay (delayN n q)

def qTrue : Q := .const (.bool true)
def qFalse : Q := .const (.bool false)

/-- the suffix list does not end with `.name` / `[]` (which `?` would apply to alone) -/
def noNav (sfx : List Suffix) : Prop :=
  match sfx.reverse with
  | .index _ :: _ => False
  | .iter :: _ => False
  | _ => True

inductive Tr : Q → Query → Prop where
  | id : Tr .id (T .identity)
  | const (c : V) (h : litOK c = true) : Tr (.const c) (T (constCore c))
  | pipe {a b A B} : Tr a A → Tr b B → Tr (.pipe a b) (.binop [] .pipe A B)
  | comma {a b A B} : Tr a A → Tr b B → Tr (.comma a b) (.binop [] .comma A B)
  | iter : Tr .iter (.term [] (.mk .identity [.iter]))
  | empty : Tr .empty (T (.func "empty" []))
  | arr {a A} : Tr a A → Tr (.arr a) (T (.array (some A)))
  | param : Tr .param (T (.func pname []))
  | call1 (f : Nat) {a A} : Tr a A → Tr (.call1 f a) (T (.func (fname f) [A]))
  | error : Tr .error (T (.func "error" []))
  | try_ {a A} : Tr a A → Tr (.try_ a) (T (.try_ A none))
  | tryCatch {a h A H} : Tr a A → Tr h H → Tr (.tryCatch a h) (T (.try_ A (some H)))
  | index (nm : Bytes) : Tr (.index (.str nm)) (T (.index (.name nm)))
  | ite {c a e C A E} : Tr c C → Tr a A → Tr e E → Tr (.ite c a e) (T (.if_ C A [] (some E)))
  | alt {l r L R} : Tr l L → Tr r R → Tr (.alt l r) (.binop [] .alt L R)
  | var (x : Nat) : Tr (.var x) (T (.func (vname x) []))
  | bind (x : Nat) {s b S B} : Tr s S → Tr b B → Tr (.bind x s b) (.bind [] S [.var (vname x)] B)
  | reduce (x : Nat) {src init upd SRC INIT UPD} : Tr src SRC → Tr init INIT → Tr upd UPD →
      Tr (.reduce x src init upd) (T (.reduce SRC (.var (vname x)) INIT UPD))
  | foreach (x : Nat) {src init upd ext SRC INIT UPD EXT} : Tr src SRC → Tr init INIT → Tr upd UPD → Tr ext EXT →
      Tr (.foreach x src init upd ext) (T (.foreach SRC (.var (vname x)) INIT UPD (some EXT)))
  /-- `(q)`: compiled as `q` (the mini query `q | .` has the same code) -/
  | paren {q A} : Tr q A → Tr (.pipe q .id) (T (.query A))
  /-- `if c then a end` -/
  | if1 {c a C A} : Tr c C → Tr a A → Tr (.ite c a .id) (T (.if_ C A [] none))
  /-- `if c then a elif c' then a' … end`: the `elif` chain is the `else` branch -/
  | elif {c a e C A C' A' rest E} : Tr c C → Tr a A → Tr e (T (.if_ C' A' rest E)) →
      Tr (.ite c a e) (T (.if_ C A ((C', A') :: rest) E))
  /-- `l and r` is compiled as `if l then (if r then true else false end) else false end` -/
  | and {l r L R} : Tr l L → Tr r R → Tr (.ite l (.ite r qTrue qFalse) qFalse) (.binop [] .and L R)
  /-- `l or r` is compiled as `if l then true else (if r then true else false end) end` -/
  | or {l r L R} : Tr l L → Tr r R → Tr (.ite l qTrue (.ite r qTrue qFalse)) (.binop [] .or L R)
  /-- `foreach src as $x (init; upd)` -/
  | foreach2 (x : Nat) {src init upd SRC INIT UPD} : Tr src SRC → Tr init INIT → Tr upd UPD →
      Tr (.foreach x src init upd .id) (T (.foreach SRC (.var (vname x)) INIT UPD none))
  /-- `t[]` is compiled as `t | .[]` -/
  | sfxIter {a core sfx} : Tr a (.term [] (.mk core sfx)) → Tr (.pipe a .iter) (.term [] (.mk core (sfx ++ [.iter])))
  /-- `t.name` is compiled as `t | .name` -/
  | sfxIndex (nm : Bytes) {a core sfx} : Tr a (.term [] (.mk core sfx)) →
      Tr (.pipe a (.index (.str nm))) (.term [] (.mk core (sfx ++ [.index (.name nm)])))
  /-- `t?` is compiled as `try t` … -/
  | sfxOpt {a core sfx} : Tr a (.term [] (.mk core sfx)) → noNav sfx →
      Tr (.try_ a) (.term [] (.mk core (sfx ++ [.optional])))
  /-- … except that `t[]?` is compiled as `t | try .[]` -/
  | sfxIterOpt {a core sfx} : Tr a (.term [] (.mk core sfx)) →
      Tr (.pipe a (.try_ .iter)) (.term [] (.mk core (sfx ++ [.iter, .optional])))
  /-- … and `t.name?` as `t | try .name` -/
  | sfxIndexOpt (nm : Bytes) {a core sfx} : Tr a (.term [] (.mk core sfx)) →
      Tr (.pipe a (.try_ (.index (.str nm)))) (.term [] (.mk core (sfx ++ [.index (.name nm), .optional])))
  /-- `delay q` has the instructions of `q` (only the fuel of the mini reference evaluator differs) -/
  | delay {q A} : Tr q A → Tr (.delay q) A
  /-- the spine of an object construction, read as the object term with the entries so far.  A
      spine is not a query by itself — the mini reference semantics gives it no meaning (`diverge`),
      so the theorems say nothing about it; these three rules only serve the rule `obj`. -/
  | objStart : Tr .objStart (T (.object []))
  /-- one more entry `(K): V` -/
  | objSnoc {init k v kvs K V} : Tr init (T (.object kvs)) → Tr k K → Tr v V →
      Tr (.objSnoc init k v) (T (.object (kvs ++ [.mk (.query K) (some V)])))
  /-- one more entry `name: V` -/
  | objSnocC (nm : Bytes) {init v kvs V} : Tr init (T (.object kvs)) → Tr v V →
      Tr (.objSnocC init (.str nm) v) (T (.object (kvs ++ [.mk (.name nm) (some V)])))
  /-- one more entry `"name": V` (same instructions as `name: V`) -/
  | objSnocS (nm : Bytes) {init v kvs V} : Tr init (T (.object kvs)) → Tr v V →
      Tr (.objSnocC init (.str nm) v) (T (.object (kvs ++ [.mk (.str (.lit nm)) (some V)])))
  /-- one more entry `{name}`, compiled as `name: .name` -/
  | objShort (nm : Bytes) {init kvs} : Tr init (T (.object kvs)) →
      Tr (.objSnocC init (.str nm) (.index (.str nm))) (T (.object (kvs ++ [.mk (.name nm) none])))
  /-- one more entry `{"name"}`, compiled as `name: .name` -/
  | objShortS (nm : Bytes) {init kvs} : Tr init (T (.object kvs)) →
      Tr (.objSnocC init (.str nm) (.index (.str nm))) (T (.object (kvs ++ [.mk (.str (.lit nm)) none])))
  /-- one more entry `{$v<x>}`, compiled as `v<x>: $v<x>` -/
  | objVar (x : Nat) {init kvs} : Tr init (T (.object kvs)) →
      Tr (.objSnocC init (.str (B (Spec.dropFirst (vname x)))) (.var x)) (T (.object (kvs ++ [.mk (.var (vname x)) none])))
  /-- `{e₁, …, eₙ}` (n ≥ 1, entries `(K): V`, `name: V`, `"name": V`, `{name}`, `{"name"}`, `{$x}`) is compiled as `obj sp`; the mini reference
      evaluator is given n more units of fuel (`delay`, no instructions), because `Spec.evalObject`
      spends one unit per entry -/
  | obj {q sp kvs} : Tr sp (T (.object kvs)) → sp.IsSpine → sp ≠ .objStart →
      q = delayN sp.entries.length (.obj sp) → Tr q (T (.object kvs))

/-- every constant has a literal and every `index` key is a string -/
def qLitOK : Q → Bool
  | .const c => litOK c
  | .index k => match k with | .str _ => true | _ => false
  | .pipe a b => qLitOK a && qLitOK b
  | .comma a b => qLitOK a && qLitOK b
  | .arr q => qLitOK q
  | .call1 _ a => qLitOK a
  | .try_ b => qLitOK b
  | .tryCatch b h => qLitOK b && qLitOK h
  | .ite c a b => qLitOK c && qLitOK a && qLitOK b
  | .alt l r => qLitOK l && qLitOK r
  | .bind _ s b => qLitOK s && qLitOK b
  | .reduce _ src init upd => qLitOK src && qLitOK init && qLitOK upd
  | .foreach _ src init upd ext => qLitOK src && qLitOK init && qLitOK upd && qLitOK ext
  -- a bare object construction is not read by `Tr` (it reads `delayN n (obj …)`: rule `Tr.obj`)
  | .obj _ => false
  | .objStart => false
  | .objSnoc _ _ _ => false
  | .objSnocC _ _ _ => false
  | .delay q => qLitOK q
  | _ => true

mutual
/-- every call goes to one of the functions `f0 … f(k-1)` (and the query is not a bare spine of an
    object construction, which has no meaning by itself) -/
def callsBelow (k : Nat) : Q → Bool
  | .call1 f a => decide (f < k) && callsBelow k a
  | .pipe a b => callsBelow k a && callsBelow k b
  | .comma a b => callsBelow k a && callsBelow k b
  | .arr q => callsBelow k q
  | .try_ b => callsBelow k b
  | .tryCatch b h => callsBelow k b && callsBelow k h
  | .ite c a b => callsBelow k c && callsBelow k a && callsBelow k b
  | .alt l r => callsBelow k l && callsBelow k r
  | .bind _ s b => callsBelow k s && callsBelow k b
  | .reduce _ src init upd => callsBelow k src && callsBelow k init && callsBelow k upd
  | .foreach _ src init upd ext => callsBelow k src && callsBelow k init && callsBelow k upd && callsBelow k ext
  | .obj sp => spineCallsBelow k sp
  | .objStart => false
  | .objSnoc _ _ _ => false
  | .objSnocC _ _ _ => false
  | .delay q => callsBelow k q
  | _ => true
/-- … for the keys and values of a spine -/
def spineCallsBelow (k : Nat) : Q → Bool
  | .objStart => true
  | .objSnoc init kq v => spineCallsBelow k init && callsBelow k kq && callsBelow k v
  | .objSnocC init _ v => spineCallsBelow k init && callsBelow k v
  | _ => false
end

/-! ### programs -/

/-- the definitions `def f<i>(g): …; def f<i+1>(g): …; …` with the given bodies -/
def defsFrom : Nat → List Query → List FuncDef
  | _, [] => []
  | i, B :: Bs => .mk (fname i) [pname] B :: defsFrom (i+1) Bs

/-- `def f0(g): bodies[0]; def f1(g): bodies[1]; …; main`: the definitions in the header of the main query -/
def progSyntax (bodies : List Query) (main : Query) : Query := main.withDefs (defsFrom 0 bodies)

/-- the jq program of a mini program -/
def toSyntax (p : Prog) : Query := progSyntax (p.defs.map toQuery) (toQuery p.main)

/-- the jq program `progSyntax bodies main` is compiled as the mini program `p` -/
structure TrProg (p : Prog) (bodies : List Query) (main : Query) : Prop where
  len : bodies.length = p.defs.length
  defs : ∀ i (h : i < p.defs.length), Tr p.defs[i] (bodies[i]'(len ▸ h))
  main : Tr p.main main

/-- in jq a top-level definition sees the definitions before it and itself: function `i` may
    call `f0 … fi` (this is what the harness generates; `Prog.WF` alone would allow a call of a
    LATER function, which is not a jq program of this shape) -/
def orderedFrom : Nat → List Q → Bool
  | _, [] => true
  | i, q :: qs => callsBelow (i+1) q && orderedFrom (i+1) qs

/-- definitions are ordered -/
def ordered (p : Prog) : Bool := orderedFrom 0 p.defs

/-- the side conditions of the translation `toSyntax`, decidable: definitions are ordered, every
    constant has a literal, every index key is a string -/
def tieOK (p : Prog) : Bool :=
  ordered p && p.defs.all qLitOK && qLitOK p.main

/-! ### the host-library parameter of the mini development, as `Spec.eval` has it -/

/-- what `catch` receives for a built-in error: its text (`null` when the message model does not
    compute it — `Spec.eval` then stops with `unmodelled`, see Props/C01Tie.lean) -/
def errMsgV (e : Gojq.Err) : V :=
  match Spec.errMessage e with
  | some m => .str m
  | none => .null

/-- `IterMsg` read off Model/Spec.lean: `funcIndex2`, the text of `iteratorError`, the text of
    the error `funcIndex2` returns -/
@[reducible] def specMsg : IterMsg where
  msg v := errMsgV (.builtin "iterator" [v])
  index v k := match funcIndex2 v k with | .ok w => some w | .error _ => none
  indexMsg v k := match funcIndex2 v k with | .ok _ => .null | .error e => errMsgV e
  keyMsg k := errMsgV (.builtin "objectKeyNotString" [k])

/-- the error of `Spec.eval` a mini error stands for -/
def trErr : MiniVM.Err → Gojq.Err
  | .notIter v => .builtin "iterator" [v]
  | .user v => .user v
  | .idx v k => match funcIndex2 v k with
    | .error (.builtin kind args) => .builtin kind args
    | _ => .builtin "" []
  | .noParam => .builtin "" []
  | .noVar _ => .builtin "" []
  | .keyNotStr k => .builtin "objectKeyNotString" [k]

/-- how an evaluation ended: running out of fuel on one side is running out of fuel on the other -/
def trStop : MiniVM.Stop → Spec.Stop
  | .done => .done
  | .err e => .err (trErr e)
  | .diverge => .fuel

/-- the evaluation context: no jq-defined builtin named `empty/0` or `error/0` (there is none in
    builtin.jq: both are special-cased by the compiler / native) -/
def NoShadow (cfg : Spec.Cfg) : Prop :=
  cfg.builtins.find "empty" 0 = none ∧ cfg.builtins.find "error" 0 = none

/-- the state `Spec.eval` starts from: the input value, no path tracking -/
def inputSt (v : V) : Spec.St := { v := v }

end Gojq.MiniSpec

/-
  Concurrency skeleton for C06 (DESIGN §6, C06 items 1 and 3).  Thread interleavings of the Go runtime
  are not modelled; what is modelled is the LOGIC that makes concurrent runs of one `*Code` safe:

  * `Sys`: G runs over one heap.  A step of run `i` maps (its local state, the heap) to a new local
    state and heap.  The address space is partitioned into allocation regions `own i` (what run `i`
    allocates itself) and the rest, `shared` (the compiled code with its constants, the input, the
    variable values).  `exec` executes an arbitrary schedule = list of run ids, one atomic step each.
  * the regexp cache of compiler.go / func.go `compileRegexp`: a `sync.Map` with `Load` then, on a
    miss, compile and `Store`; each call is two atomic steps.

  Core Lean only.
-/
namespace Gojq.Conc

/-- `G` runs sharing one heap of cells `Nat → V` -/
structure Sys (L V : Type) where
  /-- `own i a`: address `a` lies in the allocation region of run `i` -/
  own : Nat → Nat → Prop
  /-- one step of run `i` -/
  step : Nat → L → (Nat → V) → L × (Nat → V)

variable {L V : Type}

/-- addresses nobody allocates: code constants, input, variable values -/
def Sys.shared (S : Sys L V) (a : Nat) : Prop := ∀ i, ¬ S.own i a

/-- a run writes only cells it allocated itself (C05 `write_confined`, in the strict *written* sense) -/
def Sys.WriteConfined (S : Sys L V) : Prop :=
  ∀ i s h a, ¬ S.own i a → (S.step i s h).2 a = h a

/-- a run reads only `shared ∪ own`: its step is determined by those cells -/
def Sys.ReadConfined (S : Sys L V) : Prop :=
  ∀ i s h h', (∀ a, S.own i a ∨ S.shared a → h a = h' a) →
    (S.step i s h).1 = (S.step i s h').1 ∧ ∀ a, S.own i a → (S.step i s h).2 a = (S.step i s h').2 a

/-- allocation regions of different runs are disjoint -/
def Sys.Disjoint (S : Sys L V) : Prop := ∀ i j a, S.own i a → S.own j a → i = j

/-- execute a schedule: a list of run ids, one step each -/
def Sys.exec (S : Sys L V) : List Nat → (Nat → L) × (Nat → V) → (Nat → L) × (Nat → V)
  | [], g => g
  | i :: sch, g =>
    let r := S.step i (g.1 i) g.2
    S.exec sch (fun j => if j = i then r.1 else g.1 j, r.2)

/-- run `i` alone for `n` steps -/
def Sys.solo (S : Sys L V) (i : Nat) : Nat → L × (Nat → V) → L × (Nat → V)
  | 0, g => g
  | n + 1, g => S.solo i n (S.step i g.1 g.2)

/-! ### the regexp cache -/

/-- one call of `compileRegexp(key)`: about to `Load`; missed, about to compile and `Store`; returned -/
inductive Call (K V : Type) where
  | start (k : K)
  | missed (k : K)
  | done (k : K) (r : Option V)

def Call.key {K V : Type} : Call K V → K
  | .start k => k
  | .missed k => k
  | .done k _ => k

/-- one atomic step of a call against the cache (`comp k = none`: the regexp does not compile; errors
    are not stored) -/
def callStep {K V : Type} [DecidableEq K] (comp : K → Option V) (cache : K → Option V) :
    Call K V → Call K V × (K → Option V)
  | .start k =>
    match cache k with
    | some v => (.done k (some v), cache)
    | none => (.missed k, cache)
  | .missed k =>
    match comp k with
    | some v => (.done k (some v), fun k' => if k' = k then some v else cache k')
    | none => (.done k none, cache)
  | .done k r => (.done k r, cache)

/-- any schedule of the atomic steps of any number of calls -/
def cacheExec {K V : Type} [DecidableEq K] (comp : K → Option V) :
    List Nat → (Nat → Call K V) × (K → Option V) → (Nat → Call K V) × (K → Option V)
  | [], g => g
  | i :: sch, g =>
    let r := callStep comp g.2 (g.1 i)
    cacheExec comp sch (fun j => if j = i then r.1 else g.1 j, r.2)

/-- every stored regexp is the compilation of its key -/
def Coherent {K V : Type} (comp : K → Option V) (cache : K → Option V) : Prop :=
  ∀ k v, cache k = some v → comp k = some v

end Gojq.Conc

/-
  C08 — the bytecode checker, layer 2: frames, closures and value kinds.  Core Lean only.

  Layer 1 (Model/SafeVM.lean) counts data-stack entries.  This layer says WHAT some of them are, to
  exclude the three remaining panic sites of the loop:
    * `panic("env.index")`  — a variable operand `[id, i]` whose scope id is not on the chain of
                              `outerindex` links from the current frame;
    * `.([2]int)` in `opcallpc` — the popped value is not a closure;
    * `.([]any)` in `opappend`  — the variable does not hold an array.
  Per pc it annotates: the function the pc belongs to (`fn`, the pc of its `scope`), the kinds of
  the top data-stack entries (`ks`) and of the variable slots of the current frame (`sl`).  Kinds:
  `clo` = a closure created by a caller (`[2]int{pc, i}` with `i` below the current frame), `cloL` =
  a closure created by the current frame (`pushpc`), `arr` = an array, `any` = no claim.
  Per function (certificates, inferred and then only VERIFIED):
    * `avail id`  — scope ids certainly on the outer chain of a frame of scope `id` (with `id`);
    * `assume id` — variables `[x, i]` of OUTER scopes that the function (or a function / closure it
                    calls or creates) loads expecting the kind `stab (x, i)`;
    * `stab`      — the one kind every `store` to a variable stores ("stable kind"; `any` if they
                    differ).  Variables are not restored by backtracking, and a callee can be
                    re-entered long after it returned; so when control RESUMES in a frame (after a
                    call returns, or when a fork is backtracked into) a slot keeps its kind only if
                    it is its stable kind (`resume`).  `_assign`/`_modify` re-use the slot of a
                    closure parameter for a value: flow-sensitively fine, `any` after a resume.
-/
import Gojq.Model.SafeVM
namespace Gojq.SafeVM
open Gojq Gojq.VM

inductive Kind where
  | any | clo | cloL | arr
  deriving DecidableEq, Repr, Inhabited

structure Abs2 where
  fn : Nat
  ks : List Kind
  sl : List Kind
  deriving DecidableEq, Repr, Inhabited

structure Cert where
  ann : Array (Option Abs2)
  avail : List (Int × List Int)
  assume : List (Int × List (Int × Int))
  stab : List ((Int × Int) × Kind)

/-- `(id, pc)` of every `scope` instruction -/
def entryTab (code : Array Shape) : List (Int × Nat) :=
  (List.range code.size).filterMap fun pc =>
    match (code[pc]? : Option Shape) with
    | some (Shape.scope id _ _) => some (id, pc)
    | _ => none

/-- `(id, slots, closure parameters)` of the `scope` instruction at `pc` -/
def scopeAt (code : Array Shape) (pc : Nat) : Option (Int × Nat × Nat) :=
  match code[pc]? with
  | some (.scope id vars nargs) => some (id, vars.toNat, nargs.toNat)
  | _ => none

def scopeAtI (code : Array Shape) (t : Int) : Option (Int × Nat × Nat) :=
  if 0 ≤ t then scopeAt code t.toNat else none

def Cert.availOf (C : Cert) (id : Int) : List Int := (C.avail.lookup id).getD []
def Cert.assumeOf (C : Cert) (id : Int) : List (Int × Int) := (C.assume.lookup id).getD []
def Cert.stabOf (C : Cert) (x : Int × Int) : Kind := (C.stab.lookup x).getD .any

def kget (l : List Kind) (i : Nat) : Kind := l.getD i .any

/-- the annotation `b` claims no more than `s` -/
def Kind.weaker (b s : Kind) : Bool := b == .any || b == s

def ksAccept : List Kind → List Kind → Bool
  | [], _ => true
  | b :: bs, [] => b == .any && ksAccept bs []
  | b :: bs, s :: ss => b.weaker s && ksAccept bs ss

def slAccept : List Kind → List Kind → Bool
  | [], [] => true
  | b :: bs, s :: ss => b.weaker s && slAccept bs ss
  | _, _ => false

def Abs2.accepts (b s : Abs2) : Bool := b.fn == s.fn && ksAccept b.ks s.ks && slAccept b.sl s.sl

/-- the slot kinds that survive a resumption of the frame -/
def resumeFrom (C : Cert) (idF : Int) : Nat → List Kind → List Kind
  | _, [] => []
  | i, k :: ks => (if C.stabOf (idF, (i : Int)) == k then k else .any) :: resumeFrom C idF (i + 1) ks

def resume (C : Cert) (idF : Int) (sl : List Kind) : List Kind := resumeFrom C idF 0 sl

/-- a closure created by the current frame is not kept in a slot as a closure -/
def storeKind : Kind → Kind
  | .cloL => .any
  | k => k

def isClo : Kind → Bool
  | .clo | .cloL => true
  | _ => false

/-- the function at `t` (scope id `idt`) may be called / captured from a frame of scope `idF` with
    slot kinds `sl` -/
def capOK (C : Cert) (idF : Int) (sl : List Kind) (idt : Int) : Bool :=
  (C.availOf idt).all (fun x => x == idt || (C.availOf idF).contains x) &&
  (C.assumeOf idt).all (fun xi =>
    if xi.1 == idF then decide (0 ≤ xi.2) && (C.stabOf xi != .any) && (kget sl xi.2.toNat == C.stabOf xi)
    else (C.assumeOf idF).contains xi)

/-- the transfer function of layer 2: `none` = rejected -/
def step2 (code : Array Shape) (C : Cert) (pc : Nat) (a : Abs2) (ins : Shape) : Option (List (Int × Abs2)) :=
  match scopeAt code a.fn with
  | none => none
  | some (idF, nvF, nargsF) =>
    let next (ks sl : List Kind) : Option (List (Int × Abs2)) := some [((pc : Int) + 1, { a with ks := ks, sl := sl })]
    let res := resume C idF a.sl
    match ins with
    | .nop | .expbegin | .expend | .pathbegin => next a.ks a.sl
    | .push arr => next ((if arr then .arr else .any) :: a.ks) a.sl
    | .pop => next a.ks.tail a.sl
    | .dup => next (kget a.ks 0 :: kget a.ks 0 :: a.ks.tail) a.sl
    | .const => next (.any :: a.ks.tail) a.sl
    | .load id i =>
      if (C.availOf idF).contains id then
        let k := if id == idF then (if 0 ≤ i then kget a.sl i.toNat else .any)
                 else if (C.assumeOf idF).contains (id, i) then C.stabOf (id, i) else .any
        next (k :: a.ks) a.sl
      else none
    | .store id i =>
      let k := storeKind (kget a.ks 0)
      if id == idF && decide (0 ≤ i) && decide (i.toNat < a.sl.length) && (C.stabOf (id, i) == .any || C.stabOf (id, i) == k) then
        next a.ks.tail (a.sl.set i.toNat k)
      else none
    | .append id i =>
      if id == idF && decide (0 ≤ i) && kget a.sl i.toNat == .arr && (C.stabOf (id, i) == .any || C.stabOf (id, i) == .arr) then
        next a.ks.tail a.sl
      else none
    | .forklabel id i =>
      if id == idF && decide (0 ≤ i) && decide (i.toNat < a.sl.length) && C.stabOf (id, i) == .any then
        next a.ks (a.sl.set i.toNat .any)
      else none
    -- nothing is claimed of the data stack after an instruction that calls out of the loop
    | .object _ | .index _ | .indexarray _ | .callNative _ _ | .pathend => next [] a.sl
    | .jump t => some [(t, a)]
    | .jumpifnot t => some [((pc : Int) + 1, { a with ks := a.ks.tail }), (t, { a with ks := a.ks.tail })]
    | .fork t | .forkalt t | .forktrybegin t =>
      some [((pc : Int) + 1, a), (t, { a with ks := [], sl := res })]
    | .forktryend => next a.ks a.sl
    | .backtrack | .ret => some []
    | .iter => next [] res
    | .pushpc t =>
      match scopeAtI code t with
      | some (idt, _, _) => if idt != idF && capOK C idF a.sl idt then next (.cloL :: a.ks) a.sl else none
      | none => none
    | .call t =>
      match scopeAtI code t with
      | some (idt, _, nargs) =>
        if (idt == idF || capOK C idF a.sl idt) && (List.range nargs).all (fun j => isClo (kget a.ks (j + 1))) then
          next [] res
        else none
      | none => none
    | .callrec t => if t == (a.fn : Int) && nargsF == 0 then some [] else none
    | .callpc => if isClo (kget a.ks 0) then next [] res else none
    | .scope _ _ _ => next a.ks a.sl
    | .bad => none

abbrev Ann2 := Array (Option Abs2)

def succOK2 (code : Array Shape) (ann : Ann2) (s : Int × Abs2) : Bool :=
  decide (0 ≤ s.1) && (match ann[s.1.toNat]? with | some (some b) => b.accepts s.2 | _ => false)

/-- the annotation of the function entry at `pc` -/
def entryAbs2 (code : Array Shape) (pc : Nat) : Option Abs2 :=
  (scopeAt code pc).map fun (_, nv, nargs) =>
    { fn := pc, ks := .any :: List.replicate nargs .clo, sl := List.replicate nv .any }

def verifyAt2 (code : Array Shape) (C : Cert) (pc : Nat) : Bool :=
  match code[pc]?, C.ann[pc]? with
  | some ins, some (some a) =>
    (if isScope ins then entryAbs2 code pc == some a else true) &&
    (match scopeAt code a.fn with
     | some (_, nv, _) => a.sl.length == nv
     | none => false) &&
    (match step2 code C pc a ins with
     | none => false
     | some succs => succs.all (succOK2 code C.ann))
  | some ins, some none => !isScope ins
  | _, _ => false

/-- the certificates are well-formed: scope ids are unique, the main program's chain is itself,
    a function assumes only outer variables with a stable kind that are available to it -/
def certOK (code : Array Shape) (C : Cert) : Bool :=
  let et := entryTab code
  et.all (fun (id, pc) => et.lookup id == some pc) &&
  (match scopeAt code 0 with
   | some (id0, _, _) => (C.availOf id0).all (· == id0) && (C.assumeOf id0).isEmpty
   | none => false) &&
  et.all (fun (id, _) =>
    (C.assumeOf id).all fun xi => xi.1 != id && C.stabOf xi != .any && (C.availOf id).contains xi.1 &&
      slotOK (scopeTab code) xi.1 xi.2)

def verify2 (code : Array Shape) (C : Cert) : Bool :=
  C.ann.size == code.size && certOK code C && (List.range code.size).all (verifyAt2 code C)

/-! ### inference (not trusted) -/

/-- stable kinds, syntactically: the stores right after a `scope` store the input and then the
    closure parameters; `push []; store` stores an array; every other store stores `any` -/
def inferStab (code : Array Shape) : List ((Int × Int) × Kind) :=
  let kinds : List ((Int × Int) × Kind) := (List.range code.size).filterMap fun pc =>
    match (code[pc]? : Option Shape) with
    | some (Shape.store id i) =>
      let k : Kind :=
        (match (code[pc - 1]? : Option Shape) with
         | some (Shape.push true) => if pc ≥ 1 then .arr else .any
         | _ =>
           -- a closure parameter: stores number 2 … nargs + 1 after the scope instruction
           let rec back (n : Nat) (q : Nat) : Kind :=
             match n with
             | 0 => .any
             | n + 1 =>
               match (code[q]? : Option Shape) with
               | some (Shape.store _ _) => if q = 0 then .any else back n (q - 1)
               | some (Shape.scope _ _ nargs) => if pc - q ≥ 2 ∧ pc - q ≤ nargs.toNat + 1 then .clo else .any
               | _ => .any
           back 40 (pc - 1))
      some ((id, i), k)
    | some (Shape.append id i) => some ((id, i), .arr)
    | some (Shape.forklabel id i) => some ((id, i), .any)
    | _ => none
  kinds.foldl (fun acc (x, k) =>
    match acc.lookup x with
    | none => (x, k) :: acc
    | some k0 => if k0 == k then acc else (x, .any) :: acc) []

/-- the function each pc belongs to (forward propagation inside activations) -/
def inferFnLoop (code : Array Shape) : Nat → List Nat → Array (Option Nat) → Array (Option Nat)
  | 0, _, fn => fn
  | _, [], fn => fn
  | fuel + 1, pc :: wl, fn =>
    match code[pc]?, fn[pc]? with
    | some ins, some (some f) =>
      let succs : List Int := match ins with
        | .jump t => [t]
        | .jumpifnot t | .fork t | .forkalt t | .forktrybegin t => [(pc : Int) + 1, t]
        | .backtrack | .ret | .callrec _ | .bad => []
        | _ => [(pc : Int) + 1]
      let r := succs.foldl (fun (acc : List Nat × Array (Option Nat)) t =>
        if 0 ≤ t then
          match acc.2[t.toNat]? with
          | some none => (t.toNat :: acc.1, acc.2.set! t.toNat (some f))
          | _ => acc
        else acc) (wl, fn)
      inferFnLoop code fuel r.1 r.2
    | _, _ => inferFnLoop code fuel wl fn

def inferFn (code : Array Shape) : Array (Option Nat) :=
  let entries := (entryTab code).map (·.2)
  let fn0 := entries.foldl (fun a pc => a.set! pc (some pc)) (Array.replicate code.size none)
  inferFnLoop code (2 * code.size + 2) entries fn0

def idAt (code : Array Shape) (pc : Nat) : Option Int := (scopeAt code pc).map (·.1)

/-- call / closure-creation sites: (caller scope id, callee scope id) -/
def callEdges (code : Array Shape) (fn : Array (Option Nat)) : List (Int × Int) :=
  (List.range code.size).filterMap fun pc =>
    match code[pc]?, fn[pc]? with
    | some ins, some (some f) =>
      let tgt : Option Int := match ins with
        | .call t | .pushpc t | .callrec t => some t
        | _ => none
      match tgt, idAt code f with
      | some t, some idF => (scopeAtI code t).map fun (idt, _, _) => (idF, idt)
      | _, _ => none
    | _, _ => none

def interList (a b : List Int) : List Int := a.filter b.contains

/-- `avail`: greatest fixpoint of  avail t = t :: ⋂ over sites (avail caller) -/
def inferAvail (ids : List Int) (root : Int) (edges : List (Int × Int)) : Nat → List (Int × List Int) → List (Int × List Int)
  | 0, av => av
  | n + 1, av =>
    let av' := ids.map fun t =>
      if t == root then (t, [t]) else
      let callers := (edges.filter fun e => e.2 == t && e.1 != t).map (·.1)
      match callers with
      | [] => (t, ids)
      | c :: cs =>
        let meet := cs.foldl (fun acc c' => interList acc ((av.lookup c').getD ids)) ((av.lookup c).getD ids)
        (t, if meet.contains t then meet else t :: meet)
    inferAvail ids root edges n av'

/-- `assume`: least fixpoint of  assume F = outer loads with a stable kind ∪ assume of callees -/
def inferAssume (ids : List Int) (loads : List (Int × (Int × Int))) (edges : List (Int × Int)) :
    Nat → List (Int × List (Int × Int)) → List (Int × List (Int × Int))
  | 0, asm => asm
  | n + 1, asm =>
    let asm' := ids.map fun f =>
      let own := (loads.filter fun l => l.1 == f).map (·.2)
      let fromCallees := ((edges.filter fun e => e.1 == f).map fun e => ((asm.lookup e.2).getD []).filter fun xi => xi.1 != f).flatten
      (f, (own ++ fromCallees).eraseDups)
    inferAssume ids loads edges n asm'

def meetK (a b : Kind) : Kind := if a == b then a else .any

def meetKs : List Kind → List Kind → List Kind
  | [], _ => []
  | _, [] => []
  | a :: as, b :: bs => meetK a b :: meetKs as bs

def trimAny (l : List Kind) : List Kind := (l.reverse.dropWhile (· == .any)).reverse

def inferLoop2 (code : Array Shape) (C : Cert) : Nat → List Nat → Ann2 → Ann2
  | 0, _, ann => ann
  | _, [], ann => ann
  | fuel + 1, pc :: wl, ann =>
    match code[pc]?, ann[pc]? with
    | some ins, some (some a) =>
      match step2 code { C with ann := ann } pc a ins with
      | none => inferLoop2 code C fuel wl ann
      | some succs =>
        let r := succs.foldl (fun (acc : List Nat × Ann2) (s : Int × Abs2) =>
          if 0 ≤ s.1 then
            match acc.2[s.1.toNat]? with
            | some none => (s.1.toNat :: acc.1, acc.2.set! s.1.toNat (some { s.2 with ks := trimAny s.2.ks }))
            | some (some b) =>
              if b.accepts s.2 then acc
              else (s.1.toNat :: acc.1,
                    acc.2.set! s.1.toNat (some { fn := b.fn, ks := trimAny (meetKs b.ks s.2.ks), sl := meetKs b.sl s.2.sl }))
            | none => acc
          else acc) (wl, ann)
        inferLoop2 code C fuel r.1 r.2
    | _, _ => inferLoop2 code C fuel wl ann

/-- the kinds actually stored, read off a flow result -/
def restab (code : Array Shape) (ann : Ann2) : List ((Int × Int) × Kind) :=
  let kinds : List ((Int × Int) × Kind) := (List.range code.size).filterMap fun pc =>
    match (code[pc]? : Option Shape), ann[pc]? with
    | some (Shape.store id i), some (some a) => some ((id, i), storeKind (kget a.ks 0))
    | some (Shape.append id i), some (some _) => some ((id, i), .arr)
    | some (Shape.forklabel id i), some (some _) => some ((id, i), .any)
    | _, _ => none
  kinds.foldl (fun acc (x, k) =>
    match acc.lookup x with
    | none => (x, k) :: acc
    | some k0 => if k0 == k then acc else (x, .any) :: acc) []

def inferWith (code : Array Shape) (stab : List ((Int × Int) × Kind)) : Cert :=
  let et := entryTab code
  let ids := et.map (·.1)
  let fn := inferFn code
  let edges := callEdges code fn
  let root := (idAt code 0).getD 0
  let avail := inferAvail ids root edges (ids.length + 2) (ids.map fun t => (t, ids))
  let loads : List (Int × (Int × Int)) := (List.range code.size).filterMap fun pc =>
    match (code[pc]? : Option Shape), fn[pc]? with
    | some (Shape.load id i), some (some f) =>
      match idAt code f with
      | some idF => if id != idF && ((stab.lookup (id, i)).getD .any) != .any then some (idF, (id, i)) else none
      | none => none
    | _, _ => none
  let assume := inferAssume ids loads edges (ids.length + 2) (ids.map fun t => (t, []))
  let C0 : Cert := { ann := #[], avail := avail, assume := assume, stab := stab }
  let entries := et.map (·.2)
  let ann0 : Ann2 := entries.foldl (fun a pc => a.set! pc (entryAbs2 code pc)) (Array.replicate code.size none)
  { C0 with ann := inferLoop2 code C0 (32 * code.size + 32) entries ann0 }

/-- refine the stable kinds until the flow result stores what they say -/
def inferRounds (code : Array Shape) : Nat → List ((Int × Int) × Kind) → Cert
  | 0, stab => inferWith code stab
  | n + 1, stab =>
    let C := inferWith code stab
    let stab' := restab code C.ann
    if stab'.all (fun (x, k) => (stab.lookup x).getD .any == k) && stab.all (fun (x, k) => k == .any || (stab'.lookup x).getD .any == k)
    then C else inferRounds code n stab'

def inferCert (code : Array Shape) : Cert := inferRounds code 4 (inferStab code)

def checkShapes2 (code : Array Shape) : Bool := verify2 code (inferCert code)

/-- a diagnostic for the driver -/
def firstBad2 (code : Array Shape) : Option Nat :=
  let C := inferCert code
  if !certOK code C then some 0 else
  (List.range code.size).find? fun pc => !verifyAt2 code C pc

/-! ## the checker: both layers -/

/-- the checker, for a program compiled with `nvars` variables (`WithVariables`): layer 1 (heights,
    pending forks, open `pathbegin`s — Model/SafeVM.lean) and layer 2 (frames, closures, kinds) -/
def safeCheckN (nvars : Nat) (c : Array Instr) : Bool :=
  checkShapes (c.map shape) nvars && checkShapes2 (c.map shape)

/-- the checker for a program compiled without variables -/
def safeCheck (c : Array Instr) : Bool := safeCheckN 0 c

/-- the checker on a dumped instruction list (what the `safe` stream of the C04 check runs) -/
def safeCheckViewN (nvars : Nat) (c : Array Opt.Instr) : Bool :=
  checkShapes (c.map shapeV) nvars && checkShapes2 (c.map shapeV)
def safeCheckView (c : Array Opt.Instr) : Bool := safeCheckViewN 0 c

end Gojq.SafeVM

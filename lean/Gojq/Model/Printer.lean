/-
  `(*Query).String()` — the `writeTo` methods of query.go over the uniform `Parse.Ast`,
  `Operator.String` (table extracted from operator.go) and `jsonEncodeString` (encoder.go).

  The output buffer is threaded through every writer because `Index.writeTo` looks at the last
  byte written so far (`". .x" != "..x"` and `"0 .x" != "0.x"`): `Out` is the strings.Builder
  content REVERSED (head = last byte).  `none` is a Go panic (`Operator.String` on an operator
  outside the const block, a nil dereference such as `e.Left.writeTo` on a nil Left).
  Recursion is on a depth budget: `print` passes one larger than any tree it is used on.
-/
import Gojq.Model.Parse
namespace Gojq.Printer
open Gojq Gojq.Parse Gojq.Generated.Lalr

abbrev Out := List UInt8

def wb (b : Bytes) (o : Out) : Out := b.foldl (fun o c => c :: o) o
def ws (s : String) (o : Out) : Out := wb s.toUTF8.toList o

def hexLower (n : Nat) : UInt8 := if n < 10 then UInt8.ofNat (48 + n) else UInt8.ofNat (87 + n)

/-- `encoder.encodeString` without the surrounding quotes -/
def encodeBody : Nat → Bytes → Bytes
  | 0, _ => []
  | _, [] => []
  | fuel + 1, c :: r =>
    if c < 128 then
      if 32 ≤ c && c ≤ 126 && c != 34 && c != 92 then c :: encodeBody fuel r
      else
        let esc : Bytes :=
          if c == 34 then [92, 34] else if c == 92 then [92, 92] else if c == 8 then [92, 98]
          else if c == 12 then [92, 102] else if c == 10 then [92, 110] else if c == 13 then [92, 114]
          else if c == 9 then [92, 116]
          else [92, 117, 48, 48, hexLower (c.toNat / 16), hexLower (c.toNat % 16)]
        esc ++ encodeBody fuel r
    else
      let (_, w, ok) := Utf8.decodeRune (c :: r)
      if !ok && w == 1 then [92, 117, 102, 102, 102, 100] ++ encodeBody fuel r
      else (c :: r).take w ++ encodeBody fuel ((c :: r).drop w)

/-- `jsonEncodeString` -/
def encodeString (s : Bytes) : Bytes := 34 :: (encodeBody (s.length + 1) s ++ [34])

/-- `Operator.String`; none = `panic(op)` -/
def opString (op : Nat) : Option Bytes := operatorSpellings.lookup op

def opOf (a : Ast) : Nat := match a with | .int n => n | _ => 0

def isNil : Ast → Bool
  | .nil => true
  | _ => false

/-- `for i, x := range xs { if i > 0 { sep }; f x }` -/
def sepBy (f : Ast → Out → Option Out) (sep : String) : List Ast → Bool → Out → Option Out
  | [], _, o => some o
  | x :: xs, first, o => do
    let o := if first then o else ws sep o
    let o ← f x o
    sepBy f sep xs false o

def each (f : Ast → Out → Option Out) : List Ast → Out → Option Out
  | [], o => some o
  | x :: xs, o => do let o ← f x o; each f xs o

/-- mode 0 = `writeTo`; mode 1 = `Index.writeSuffixTo` -/
def w : Nat → Nat → Ast → Out → Option Out
  | 0, _, _, _ => none
  | fuel + 1, mode, a, o =>
    let W := w fuel 0
    match a with
    | .obj "Query" _ => do
      let o ← if isNil (a.get "Meta") then some o else do
        let o ← W (a.get "Meta") (ws "module " o); some (ws ";\n" o)
      let o ← each W (a.get "Imports").elems o
      let o ← each (fun fd o => do let o ← W fd o; some (32 :: o)) (a.get "FuncDefs").elems o
      if !isNil (a.get "Term") then W (a.get "Term") o
      else if !isNil (a.get "Right") then do
        let op := opOf (a.get "Op")
        let o ← W (a.get "Left") o
        let o := if op != OpComma then 32 :: o else o
        let rec pats : List Ast → Bool → Out → Option Out
          | [], _, o => some o
          | p :: ps, first, o => do
            let o := ws (if first then "as " else "?// ") o
            let o ← W p o
            pats ps false (32 :: o)
        let o ← pats (a.get "Patterns").elems true o
        let sp ← opString op
        W (a.get "Right") (32 :: wb sp o)
      else some o
    | .obj "Import" _ => do
      let o ← if !(a.get "ImportAlias").isZero then
          some (wb (a.get "ImportAlias").strOf (ws " as " (wb (encodeString (a.get "ImportPath").strOf) (ws "import " o))))
        else some (wb (encodeString (a.get "IncludePath").strOf) (ws "include " o))
      let o ← if isNil (a.get "Meta") then some o else W (a.get "Meta") (32 :: o)
      some (ws ";\n" o)
    | .obj "FuncDef" _ => do
      let o := wb (a.get "Name").strOf (ws "def " o)
      let args := (a.get "Args").elems
      let o ← if args.isEmpty then some o else do
        let o ← sepBy (fun x o => some (wb x.strOf o)) "; " args true (40 :: o)
        some (41 :: o)
      let o ← W (a.get "Body") (ws ": " o)
      some (59 :: o)
    | .obj "Term" _ => do
      let ty := opOf (a.get "Type")
      let o ←
        if ty == TermTypeIdentity then some (46 :: o)
        else if ty == TermTypeRecurse then some (ws ".." o)
        else if ty == TermTypeNull then some (ws "null" o)
        else if ty == TermTypeTrue then some (ws "true" o)
        else if ty == TermTypeFalse then some (ws "false" o)
        else if ty == TermTypeIndex then W (a.get "Index") o
        else if ty == TermTypeFunc then W (a.get "Func") o
        else if ty == TermTypeObject then W (a.get "Object") o
        else if ty == TermTypeArray then W (a.get "Array") o
        else if ty == TermTypeNumber then some (wb (a.get "Number").strOf o)
        else if ty == TermTypeUnary then W (a.get "Unary") o
        else if ty == TermTypeFormat then
          let o := wb (a.get "Format").strOf o
          if isNil (a.get "Str") then some o else W (a.get "Str") (32 :: o)
        else if ty == TermTypeString then W (a.get "Str") o
        else if ty == TermTypeIf then W (a.get "If") o
        else if ty == TermTypeTry then W (a.get "Try") o
        else if ty == TermTypeReduce then W (a.get "Reduce") o
        else if ty == TermTypeForeach then W (a.get "Foreach") o
        else if ty == TermTypeLabel then W (a.get "Label") o
        else if ty == TermTypeBreak then some (wb (a.get "Break").strOf (ws "break " o))
        else if ty == TermTypeQuery then do let o ← W (a.get "Query") (40 :: o); some (41 :: o)
        else some o
      -- the first suffix of an identity term that is an index keeps its dot: ". .[0]" != ".[0]"
      match (a.get "SuffixList").elems with
      | f :: rest =>
        if ty == TermTypeIdentity && !isNil (f.get "Index") then do
          let o ← W (f.get "Index") o
          each W rest o
        else each W (f :: rest) o
      | [] => some o
    | .obj "Unary" _ => do
      let sp ← opString (opOf (a.get "Op"))
      W (a.get "Term") (wb sp o)
    | .obj "Pattern" _ =>
      if !(a.get "Name").isZero then some (wb (a.get "Name").strOf o)
      else if !(a.get "Array").elems.isEmpty then do
        let o ← sepBy W ", " (a.get "Array").elems true (91 :: o); some (93 :: o)
      else if !(a.get "Object").elems.isEmpty then do
        let o ← sepBy W ", " (a.get "Object").elems true (123 :: o); some (125 :: o)
      else some o
    | .obj "PatternObject" _ | .obj "ObjectKeyVal" _ => do
      let o ←
        if !(a.get "Key").isZero then some (wb (a.get "Key").strOf o)
        else if !isNil (a.get "KeyString") then W (a.get "KeyString") o
        else if !isNil (a.get "KeyQuery") then do let o ← W (a.get "KeyQuery") (40 :: o); some (41 :: o)
        else some o
      if isNil (a.get "Val") then some o else W (a.get "Val") (ws ": " o)
    | .obj "Index" _ =>
      if mode == 0 then
        -- Index.writeTo: ". .x" != "..x" and "0 .x" != "0.x"
        let o := match o with
          | c :: _ => if c == 46 || (48 ≤ c && c ≤ 57) then 32 :: o else o
          | [] => o
        w fuel 1 a (46 :: o)
      else
        -- Index.writeSuffixTo
        if !(a.get "Name").isZero then some (wb (a.get "Name").strOf o)
        else if !isNil (a.get "Str") then W (a.get "Str") o
        else do
          let o := 91 :: o
          let o ← if !(a.get "IsSlice").isZero then do
              let o ← if isNil (a.get "Start") then some o else W (a.get "Start") o
              let o := 58 :: o
              if isNil (a.get "End") then some o else W (a.get "End") o
            else W (a.get "Start") o
          some (93 :: o)
    | .obj "Func" _ => do
      let o := wb (a.get "Name").strOf o
      let args := (a.get "Args").elems
      if args.isEmpty then some o else do
        let o ← sepBy W "; " args true (40 :: o); some (41 :: o)
    | .obj "String" _ =>
      match a.get "Queries" with
      | .list qs => do
        let part (e : Ast) (o : Out) : Option Out :=
          if isNil ((e.get "Term").get "Str") then W e (92 :: o)
          else do
            -- es := e.String(); s.WriteString(es[1 : len(es)-1])
            let es ← W e []
            some (wb ((es.reverse.drop 1).dropLast) o)
        let o ← each part qs (34 :: o)
        some (34 :: o)
      | _ => some (wb (encodeString (a.get "Str").strOf) o)
    | .obj "Object" _ | .obj "ConstObject" _ =>
      let kvs := (a.get "KeyVals").elems
      if kvs.isEmpty then some (ws "{}" o) else do
        let o ← sepBy W ", " kvs true (ws "{ " o); some (ws " }" o)
    | .obj "Array" _ => do
      let o ← if isNil (a.get "Query") then some (91 :: o) else W (a.get "Query") (91 :: o)
      some (93 :: o)
    | .obj "Suffix" _ =>
      let idx := a.get "Index"
      if !isNil idx then
        if !(idx.get "Name").isZero || !isNil (idx.get "Str") then W idx o else w fuel 1 idx o
      else if !(a.get "Iter").isZero then some (ws "[]" o)
      else if !(a.get "Optional").isZero then some (63 :: o)
      else some o
    | .obj "If" _ => do
      let o ← W (a.get "Cond") (ws "if " o)
      let o ← W (a.get "Then") (ws " then " o)
      let o ← each (fun e o => W e (32 :: o)) (a.get "Elif").elems o
      let o ← if isNil (a.get "Else") then some o else W (a.get "Else") (ws " else " o)
      some (ws " end" o)
    | .obj "IfElif" _ => do
      let o ← W (a.get "Cond") (ws "elif " o)
      W (a.get "Then") (ws " then " o)
    | .obj "Try" _ => do
      let o ← W (a.get "Body") (ws "try " o)
      if isNil (a.get "Catch") then some o else W (a.get "Catch") (ws " catch " o)
    | .obj "Reduce" _ | .obj "Foreach" _ => do
      let o ← W (a.get "Query") (ws (match a with | .obj "Reduce" _ => "reduce " | _ => "foreach ") o)
      let o ← W (a.get "Pattern") (ws " as " o)
      let o ← W (a.get "Start") (ws " (" o)
      let o ← W (a.get "Update") (ws "; " o)
      let o ← if isNil (a.get "Extract") then some o else W (a.get "Extract") (ws "; " o)
      some (41 :: o)
    | .obj "Label" _ => do
      let o := ws " | " (wb (a.get "Ident").strOf (ws "label " o))
      W (a.get "Body") o
    | .obj "ConstTerm" _ =>
      if !isNil (a.get "Object") then W (a.get "Object") o
      else if !isNil (a.get "Array") then W (a.get "Array") o
      else if !(a.get "Number").isZero then some (wb (a.get "Number").strOf o)
      else if !(a.get "Null").isZero then some (ws "null" o)
      else if !(a.get "True").isZero then some (ws "true" o)
      else if !(a.get "False").isZero then some (ws "false" o)
      else some (wb (encodeString (a.get "Str").strOf) o)
    | .obj "ConstObjectKeyVal" _ => do
      let o := if !(a.get "Key").isZero then wb (a.get "Key").strOf o else wb (encodeString (a.get "KeyString").strOf) o
      W (a.get "Val") (ws ": " o)
    | .obj "ConstArray" _ => do
      let o ← sepBy W ", " (a.get "Elems").elems true (91 :: o); some (93 :: o)
    | _ => none   -- nil receiver: Go would dereference nil

/-- `q.String()` -/
def print (fuel : Nat) (q : Ast) : Option Bytes := (w fuel 0 q []).map List.reverse

end Gojq.Printer

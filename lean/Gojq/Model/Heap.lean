/-
  Heap model for C02 item 4, C05 and C06 (DESIGN §3.1, "labelled trees").

  A Go value whose containers have addresses is written as a tree in which every array and
  object carries the LABEL of its cell.  A DAG (one map or slice referenced from two places)
  is the same label occurring twice.  An in-place write `v[k] = u` to the cell labelled `id`
  is the substitution "the content of `id` is now …" applied to EVERY occurrence of `id`
  (`subst`, `applyLog`): this is how aliasing becomes observable in the model.  `abs` erases
  labels and gives the JSON value (`Gojq.JV`).

  Transliterated from /repo/func.go (the tree after the fixes abf8186, 97b79ee, 622959f, abb84a0):
    allocator.allocated / makeObject / makeArray   → the owned-label list `A` and the fresh counter `f`
    allocator.free                                 → `A.filter (· ≠ id)` where an owned array is re-allocated
    allocator.release                              → `release`
    update / updateObject / updateArrayIndex       → `upd`   (n ≠ struct{}{}: setpath)
                                                   → `mark`  (n = struct{}{}: the marking pass of delpaths)
    deleteEmpty                                    → `sweep`
    delpaths                                       → `delpathsT`
    funcGetpath / funcGetpathWithAllocator         → `getp`, `getpRelease`
    one iteration of `_modify` (compiler.go)       → `modifyStep`
  and, on plain `JV`, the DEFINING value semantics `getpath`, `setpath`, `delpaths`.

  Path elements are object keys and array indices (negative indices count from the end).
  SLICE path elements `{"start":…,"end":…}` are NOT modelled here: a Go slice of a cell is a
  second header onto the same cell, which labelled trees cannot express; the drivers answer
  `?` for them and the update oracle (harness/c02oracle) covers them by search.

  Core Lean only.
-/
import Gojq.Model.Json
namespace Gojq.Heap
open Gojq

/-- scalar JSON values (the leaves) -/
inductive Sc where
  | null
  | bool (b : Bool)
  | num (n : Num)
  | str (s : Bytes)
  deriving Repr, DecidableEq, Inhabited

def Sc.toJV : Sc → JV
  | .null => .null
  | .bool b => .bool b
  | .num n => .num n
  | .str s => .str s

/-- path element: `.k` or `.[i]` -/
inductive PE where
  | key (k : Bytes)
  | idx (i : Int)
  deriving Repr, DecidableEq, Inhabited

abbrev Path := List PE

/-- Labelled trees.  `node id isObj cap kids`: the array (`isObj = false`, capacity `cap`, the key
    component of `kids` unused) or object (`isObj = true`, keys in the order of `Bytes.cmp`) stored in
    cell `id`.  `hole` is the placeholder `struct{}{}` that `delpaths` writes before sweeping. -/
inductive T where
  | leaf (s : Sc)
  | hole
  | node (id : Nat) (isObj : Bool) (cap : Nat) (kids : List (Bytes × T))
  deriving Repr, Inhabited

abbrev Kids := List (Bytes × T)

def T.null : T := .leaf .null

mutual
  /-- labels, with multiplicity, in pre-order -/
  def T.ids : T → List Nat
    | .leaf _ => []
    | .hole => []
    | .node id _ _ ks => id :: idsK ks
  def idsK : Kids → List Nat
    | [] => []
    | (_, t) :: ks => t.ids ++ idsK ks
end

mutual
  /-- label erasure: the JSON value a tree denotes (`hole` denotes `null`) -/
  def abs : T → JV
    | .leaf s => s.toJV
    | .hole => .null
    | .node _ true _ ks => .obj (absO ks)
    | .node _ false _ ks => .arr (absA ks)
  def absO : Kids → List (Bytes × JV)
    | [] => []
    | (k, t) :: ks => (k, abs t) :: absO ks
  def absA : Kids → List JV
    | [] => []
    | (_, t) :: ks => abs t :: absA ks
end

mutual
  /-- the cell `id` now has content `new`: seen through every reference -/
  def subst (id : Nat) (new : Kids) : T → T
    | .leaf s => .leaf s
    | .hole => .hole
    | .node j o c ks => if j = id then .node j o c new else .node j o c (substK id new ks)
  def substK (id : Nat) (new : Kids) : Kids → Kids
    | [] => []
    | (k, t) :: ks => (k, subst id new t) :: substK id new ks
end

/-- the in-place writes of one call, oldest first: (cell, new content) -/
abbrev Log := List (Nat × Kids)

/-- replay of the in-place writes through every reference of `t` -/
def applyLog (log : Log) (t : T) : T := log.foldl (fun t e => subst e.1 e.2 t) t

/-! ### value-level (defining) semantics on `JV` -/

/-- outcome of Go's `clampIndex(i, -1, len)` as used by `updateArrayIndex` -/
inductive Res where
  | neg                 -- i + len < 0
  | inr (j : Nat)       -- the element j < len
  | beyond (i : Nat)    -- i ≥ len (extension)
  deriving Repr, DecidableEq

def resolve (i : Int) (len : Nat) : Res :=
  if i < 0 then (if i + len < 0 then .neg else .inr (i + len).toNat)
  else if i < len then .inr i.toNat else .beyond i.toNat

/-- `0x20000000`: indices from here on are rejected by `updateArrayIndex` (arrayIndexTooLargeError) -/
def maxIndex : Nat := 0x20000000

/-- lookup in an object by the scan of `kvInsert` (on well-formed objects, whose keys are strictly
    increasing, this is the map lookup `kvLookup`: `kvFind_eq_kvLookup` in Proofs/Heap.lean) -/
def kvFind (k : Bytes) : List (Bytes × JV) → Option JV
  | [] => none
  | (k', v') :: rest =>
    match Bytes.cmp k k' with
    | .lt => none
    | .eq => some v'
    | .gt => kvFind k rest

/-- `getpath(p)` (func.go funcGetpath / funcIndex2): `none` = error -/
def getpath : Path → JV → Option JV
  | [], v => some v
  | .key _ :: p, .null => getpath p .null
  | .key k :: p, .obj kvs => getpath p ((kvFind k kvs).getD .null)
  | .idx _ :: p, .null => getpath p .null
  | .idx i :: p, .arr xs =>
    match resolve i xs.length with
    | .inr j => getpath p (xs.getD j .null)
    | _ => getpath p .null
  | _ :: _, _ => none

/-- `setpath(p; n)` with value semantics (func.go update with a nil allocator): `none` = error -/
def setpath : Path → JV → JV → Option JV
  | [], _, n => some n
  | .key k :: p, .null, n => (setpath p .null n).map fun u => .obj [(k, u)]
  | .key k :: p, .obj kvs, n =>
    (setpath p ((kvFind k kvs).getD .null) n).map fun u => .obj (kvInsert k u kvs)
  | .idx i :: p, .null, n =>
    match resolve i 0 with
    | .beyond i => if i ≥ maxIndex then none
                   else (setpath p .null n).map fun u => .arr (List.replicate i .null ++ [u])
    | _ => none
  | .idx i :: p, .arr xs, n =>
    match resolve i xs.length with
    | .neg => none
    | .inr j => (setpath p (xs.getD j .null) n).map fun u => .arr (xs.set j u)
    | .beyond i => if i ≥ maxIndex then none
                   else (setpath p .null n).map fun u => .arr (xs ++ List.replicate (i - xs.length) .null ++ [u])
  | _ :: _, _, _ => none

/-- tails of the paths in `ps` whose first element selects this child -/
def subPaths (sel : PE → Bool) (ps : List Path) : List Path :=
  ps.filterMap fun p => match p with
    | [] => none
    | e :: t => if sel e then some t else none

def selKey (k : Bytes) : PE → Bool
  | .key k' => k == k'
  | _ => false

def selIdx (len j : Nat) : PE → Bool
  | .idx i => resolve i len == .inr j
  | _ => false

def hasKey : List Path → Bool
  | [] => false
  | (.key _ :: _) :: _ => true
  | _ :: ps => hasKey ps

def hasIdx : List Path → Bool
  | [] => false
  | (.idx _ :: _) :: _ => true
  | _ :: ps => hasIdx ps

mutual
  /-- `delpaths(ps)` with value semantics: the positions that the paths denote IN `v` are removed, all
      at once.  Precondition for the value to make sense: `[] ∉ ps` (the caller handles the root).
      Defined by structural recursion on the value, so the order of `ps` is immaterial by construction
      up to `subPaths`, see `Props/C02Heap.lean`.  Type errors are reported by `delpathsOk`. -/
  def delv (ps : List Path) : JV → JV
    | .arr xs => .arr (delvA ps xs.length 0 xs)
    | .obj kvs => .obj (delvO ps kvs)
    | v => v
  def delvA (ps : List Path) (len j : Nat) : List JV → List JV
    | [] => []
    | x :: xs =>
      let sub := subPaths (selIdx len j) ps
      if sub.contains [] then delvA ps len (j + 1) xs
      else delv sub x :: delvA ps len (j + 1) xs
  def delvO (ps : List Path) : List (Bytes × JV) → List (Bytes × JV)
    | [] => []
    | (k, x) :: kvs =>
      let sub := subPaths (selKey k) ps
      if sub.contains [] then delvO ps kvs
      else (k, delv sub x) :: delvO ps kvs
end

/-- the defining `delpaths`: a path list containing `[]` deletes the whole value -/
def delpaths (ps : List Path) (v : JV) : JV :=
  if ps.contains [] then .null else delv ps v

/-! ### the allocator level -/

/-- what a path element finds in a container: the children before it, its key, the child itself
    (`null` when absent), the children after it; whether an owned container can take the write in place
    (`i < cap`), and the capacities of the copy (`capO`: owned but too small, doubling rule; `capN`: not
    owned). -/
structure Focus where
  pre : Kids
  key : Bytes
  child : T
  post : Kids
  fits : Bool
  capO : Nat
  capN : Nat
  deriving Repr

/-- position of key `k` in an object: same scan as `kvInsert` -/
def splitKey (k : Bytes) : Kids → Kids × Option T × Kids
  | [] => ([], none, [])
  | (k', x) :: rest =>
    match Bytes.cmp k k' with
    | .lt => ([], none, (k', x) :: rest)
    | .eq => ([], some x, rest)
    | .gt => let r := splitKey k rest; ((k', x) :: r.1, r.2.1, r.2.2)

/-- element `j` of an array -/
def splitIdx : Nat → Kids → Option (Kids × T × Kids)
  | _, [] => none
  | 0, (_, x) :: rest => some ([], x, rest)
  | j + 1, kx :: rest => (splitIdx j rest).map fun r => (kx :: r.1, r.2.1, r.2.2)

def nullKids (n : Nat) : Kids := List.replicate n ([], T.null)

/-- `updateObject` / `updateArrayIndex` up to the recursive call, for `n ≠ struct{}{}`.
    Result: the cell entered with its capacity (`none` for `null`, which has no cell), whether the new
    container is an object, and the focus; `none` = Go error (wrong type, negative index out of range, index too large). -/
def enter : PE → T → Option (Option (Nat × Nat) × Bool × Focus)
  | .key k, .leaf .null => some (none, true, ⟨[], k, T.null, [], false, 0, 0⟩)
  | .key k, .node id true c ks =>
    let r := splitKey k ks
    some (some (id, c), true, ⟨r.1, k, r.2.1.getD T.null, r.2.2, true, c, c⟩)
  | .idx i, .leaf .null =>
    match resolve i 0 with
    | .beyond i => if i ≥ maxIndex then none
                   else some (none, false, ⟨nullKids i, [], T.null, [], false, i + 1, i + 1⟩)
    | _ => none
  | .idx i, .node id false c ks =>
    match resolve i ks.length with
    | .neg => none
    | .inr j => (splitIdx j ks).map fun r => (some (id, c), false, ⟨r.1, [], r.2.1, r.2.2, true, max ks.length c, max ks.length c⟩)
    | .beyond i => if i ≥ maxIndex then none
                   else some (some (id, c), false,
                     ⟨ks ++ nullKids (i - ks.length), [], T.null, [], decide (i < c), max (i + 1) (c * 2), max (i + 1) c⟩)
  | _, _ => none

def cellIds : Option (Nat × Nat) → List Nat
  | some (id, _) => [id]
  | none => []

/-- the cells entered along a path: the spine that `upd` rewrites -/
def spine : Path → T → List Nat
  | [], _ => []
  | e :: p, v =>
    match enter e v with
    | none => []
    | some (cell, _, fo) => cellIds cell ++ spine p fo.child

/-- the subtree that `upd` replaces (`null` where the path leaves the value) -/
def subE : Path → T → T
  | [], v => v
  | e :: p, v =>
    match enter e v with
    | none => T.null
    | some (_, _, fo) => subE p fo.child

/-- `update(v, path, n, a)` of func.go for `n ≠ struct{}{}`: every container on the path is written in
    place when its cell is owned (`a.allocated`), else copied into a fresh owned cell.
    Result: (new value, allocator, fresh counter, in-place writes); `none` = Go error. -/
def upd (A : List Nat) (f : Nat) : Path → T → T → Option (T × List Nat × Nat × Log)
  | [], _, n => some (n, A, f, [])
  | e :: p, v, n =>
    match enter e v with
    | none => none
    | some (cell, o, fo) =>
      match upd A f p fo.child n with
      | none => none
      | some (u, A1, f1, log) =>
        let kids := fo.pre ++ (fo.key, u) :: fo.post
        match cell with
        | some (id, c) =>
          if id ∈ A1 then
            if fo.fits then some (.node id o c kids, A1, f1, log ++ [(id, kids)])
            else some (.node f1 o fo.capO kids, f1 :: A1.filter (· ≠ id), f1 + 1, log)   -- `a.free(v)` (abb84a0)
          else some (.node f1 o fo.capN kids, f1 :: A1, f1 + 1, log)
        | none => some (.node f1 o fo.capN kids, f1 :: A1, f1 + 1, log)

/-- the three answers of `updateObject` / `updateArrayIndex` when `n = struct{}{}` -/
inductive EnterDel where
  | err                                          -- wrong type
  | same                                         -- nothing to delete here: `return v, nil`
  | at (id : Nat) (o : Bool) (c cCopy : Nat) (pre : Kids) (key : Bytes) (child : T) (post : Kids)

def enterDel : PE → T → EnterDel
  | _, .hole => .same                            -- `case struct{}: return v, nil`
  | .key _, .leaf .null => .same
  | .key k, .node id true c ks =>
    match splitKey k ks with
    | (pre, some x, post) => .at id true c c pre k x post
    | _ => .same
  | .idx _, .leaf .null => .same
  | .idx i, .node id false c ks =>
    match resolve i ks.length with
    | .inr j => match splitIdx j ks with
      | some (pre, x, post) => .at id false c (max ks.length c) pre [] x post
      | none => .same
    | _ => .same
  | _, _ => .err

/-- `update(v, path, struct{}{}, a)`: the marking pass of `delpaths` -/
def mark (A : List Nat) (f : Nat) : Path → T → Option (T × List Nat × Nat × Log)
  | [], _ => some (.hole, A, f, [])
  | e :: p, v =>
    match enterDel e v with
    | .err => none
    | .same => some (v, A, f, [])
    | .at id o c cCopy pre key child post =>
      match mark A f p child with
      | none => none
      | some (u, A1, f1, log) =>
        let kids := pre ++ (key, u) :: post
        if id ∈ A1 then some (.node id o c kids, A1, f1, log ++ [(id, kids)])
        else some (.node f1 o cCopy kids, f1 :: A1, f1 + 1, log)

mutual
  /-- `deleteEmpty(v, a)` after 97b79ee: only owned containers are swept (and written) -/
  def sweep (A : List Nat) : T → T
    | .hole => T.null
    | .leaf s => .leaf s
    | .node id o c ks => if id ∈ A then .node id o c (sweepK A ks) else .node id o c ks
  def sweepK (A : List Nat) : Kids → Kids
    | [] => []
    | (_, .hole) :: ks => sweepK A ks
    | (k, t) :: ks => (k, sweep A t) :: sweepK A ks
end

mutual
  /-- the cells `deleteEmpty` stores into -/
  def sweepWrites (A : List Nat) : T → List Nat
    | .hole => []
    | .leaf _ => []
    | .node id _ _ ks => if id ∈ A then id :: sweepWritesK A ks else []
  def sweepWritesK (A : List Nat) : Kids → List Nat
    | [] => []
    | (_, t) :: ks => sweepWrites A t ++ sweepWritesK A ks
end

/-- the marking loop of `delpaths` -/
def markAll : List Path → T × List Nat × Nat × Log → Option (T × List Nat × Nat × Log)
  | [], s => some s
  | p :: ps, (v, A, f, log) =>
    match mark A f p v with
    | none => none
    | some (v1, A1, f1, log1) => markAll ps (v1, A1, f1, log ++ log1)

/-- `delpaths(v, ps, a)`; the last component lists the cells written by the sweep -/
def delpathsT (A : List Nat) (f : Nat) (ps : List Path) (v : T) : Option (T × List Nat × Nat × Log × List Nat) :=
  if ps.isEmpty then some (v, A, f, [], [])
  else match markAll ps (v, A, f, []) with
    | none => none
    | some (u, A1, f1, log) => some (sweep A1 u, A1, f1, log, sweepWrites A1 u)

/-- tree-level `getpath` (funcGetpath): the addressed subtree, `null` when absent; `none` = error -/
def getp : Path → T → Option T
  | [], v => some v
  | .key _ :: p, .leaf .null => getp p T.null
  | .key k :: p, .node _ true _ ks => getp p ((splitKey k ks).2.1.getD T.null)
  | .idx _ :: p, .leaf .null => getp p T.null
  | .idx i :: p, .node _ false _ ks =>
    match resolve i ks.length with
    | .inr j => match splitIdx j ks with
      | some r => getp p r.2.1
      | none => getp p T.null
    | _ => getp p T.null
  | _ :: _, _ => none

mutual
  /-- `allocator.release(v)` (622959f): forget every owned cell of `v`, pruning at cells that are not owned -/
  def release (A : List Nat) : T → List Nat
    | .leaf _ => A
    | .hole => A
    | .node id _ _ ks => if id ∈ A then releaseK (A.filter (· ≠ id)) ks else A
  def releaseK (A : List Nat) : Kids → List Nat
    | [] => A
    | (_, t) :: ks => releaseK (release A t) ks
end

/-- `funcGetpathWithAllocator` for paths without a final slice: the value handed to the update query -/
def getpRelease (A : List Nat) (p : Path) (v : T) : Option (T × List Nat) :=
  (getp p v).map fun x => (x, release A x)

/-- One iteration of `_modify` whose update query yields an output: `x = getpath($p)` is released,
    the query builds `n` from it (`q x f` returns the tree and the advanced label counter: the query may
    allocate containers of its own, never registered in the allocator), then `_setpath`. -/
def modifyStep (q : T → Nat → T × Nat) (st : T × List Nat × Nat) (p : Path) : Option (T × List Nat × Nat × Log) :=
  match getpRelease st.2.1 p st.1 with
  | none => none
  | some (x, A1) =>
    let r := q x st.2.2
    upd A1 r.2 p st.1 r.1

/-- `_modify(paths; q)` restricted to paths on which the update query yields an output: the reduction
    over the path list.  The next iteration sees the value with the in-place writes replayed. -/
def modifyAll (q : T → Nat → T × Nat) : List Path → T × List Nat × Nat → Option (T × List Nat × Nat)
  | [], st => some st
  | p :: ps, st =>
    match modifyStep q st p with
    | none => none
    | some (v', A', f', log) => modifyAll q ps (applyLog log v', A', f')

/-- the defining reduction `reduce path(paths) as $p (.; setpath($p; getpath($p) | q))` on values -/
def modifyV (qv : JV → JV) : List Path → JV → Option JV
  | [], w => some w
  | p :: ps, w =>
    match getpath p w with
    | none => none
    | some x =>
      match setpath p w (qv x) with
      | none => none
      | some w' => modifyV qv ps w'

/-- `_modify(paths; q)` in full.  `q x f = none`: the update query is `empty` at this path — the path
    is appended to `$d`; at the end all collected paths are deleted with `_delpaths` (compileModify). -/
def modifyFullAux (q : T → Nat → Option (T × Nat)) :
    List Path → T × List Nat × Nat → List Path → Option ((T × List Nat × Nat) × List Path)
  | [], st, d => some (st, d)
  | p :: ps, st, d =>
    match getpRelease st.2.1 p st.1 with
    | none => none
    | some (x, A1) =>
      match q x st.2.2 with
      | none => modifyFullAux q ps (st.1, A1, st.2.2) (d ++ [p])
      | some (n, f1) =>
        match upd A1 f1 p st.1 n with
        | none => none
        | some (v', A', f', log) => modifyFullAux q ps (applyLog log v', A', f') d

def modifyFull (q : T → Nat → Option (T × Nat)) (ps : List Path) (v : T) (f : Nat) : Option T :=
  match modifyFullAux q ps (v, [], f) [] with
  | none => none
  | some ((v', A', f'), d) => (delpathsT A' f' d v').map (·.1)

/-- the defining reduction of `|=` on values (jq 1.7 `_modify`): first output of the update query,
    paths where it is empty are collected and deleted at the end, against the updated value -/
def modifyVAux (qv : JV → Option JV) : List Path → JV → List Path → Option (JV × List Path)
  | [], w, d => some (w, d)
  | p :: ps, w, d =>
    match getpath p w with
    | none => none
    | some x =>
      match qv x with
      | none => modifyVAux qv ps w (d ++ [p])
      | some y =>
        match setpath p w y with
        | none => none
        | some w' => modifyVAux qv ps w' d

def modifyVFull (qv : JV → Option JV) (ps : List Path) (w : JV) : Option JV :=
  (modifyVAux qv ps w []).map fun r => delpaths r.2 r.1

/-- The exact observable state after a sequence of in-place writes: a cell shows its LAST written
    content, and so do the cells referenced from that content (also those written EARLIER: a payload is
    a snapshot that may be stale).  Cyclic stores (D4) make this non-terminating, hence the fuel.
    Used by the `heap` correspondence driver, where aliasing is generated on purpose. -/
def lastWrite (log : Log) (id : Nat) : Option Kids :=
  log.foldl (fun acc e => if e.1 = id then some e.2 else acc) none

def observe (log : Log) : Nat → T → T
  | fuel + 1, .node id o c ks =>
    .node id o c (((lastWrite log id).getD ks).map fun x => (x.1, observe log fuel x.2))
  | _, t => t

end Gojq.Heap

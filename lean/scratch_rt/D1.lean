import Gojq.Model.RefTermParser
namespace Gojq.RefTerm
open Gojq
def q1 : Query := .binop .alt (.binop .assign (.term (.index (.name [97]))) (.term (.index (.name [98])))) (.term (.number [49]))
example : printQ q1 = [46, 97, 32, 61, 32, 46, 98, 32, 47, 47, 32, 49] := by decide +kernel
example : Printable q1 = true ∧ Spaced q1 = true := by decide +kernel
example : tokensOf (printQ q1) = toks (itemsQ q1) := by decide +kernel
example : refParseQ 50 (tokensOf (printQ q1)) = some q1 := by rfl
end Gojq.RefTerm

import Gojq.Proofs.RoundTripPatterns
namespace Gojq.RefTerm
open Gojq
example (n : Bytes) (b h : Query) : okT (.tryCatch (.label n b) h) = false := by
  unfold okT
  trace_state
  simp
example (n : Bytes) (b h : Query) : okT (.tryCatch (.label n b) h) = false := by
  cases h <;> rfl
end Gojq.RefTerm

import Gojq.Proofs.RoundTripLex
namespace Gojq.RefTerm
open Gojq Gojq.Lexer Gojq.Generated.Lalr

theorem lx_char (c : UInt8) (r : Bytes) (hw : isWhite c = false) (hh : (c == 35) = false) :
    lx (c :: r) false =
      ((scanTok false c r).ty, (scanTok false c r).lval, r.drop (scanTok false c r).n,
        (scanTok false c r).inString.getD false) := by
  simp [lx, lex, next, nextAux, hw, hh, commit]

example (r : Bytes) : scanTok false 40 r = { n := 0, token := none, ty := 40 } := by
  rfl

example (r : Bytes) (h : (peek r == 61) = false) : scanTok false 124 r = { n := 0, token := none, ty := 124 } := by
  simp [scanTok, isIdent, isNumber, h]

example : classify false 40 {} = .ch 40 := by decide
example (lv : LVal) : classify false 40 lv = .ch 40 := by rfl
end Gojq.RefTerm

import Gojq.Proofs.RoundTripAll
open Gojq.RefTerm
#print axioms refParse_items
#print axioms rtQ
#check @refParse_items

import Gojq.Proofs.RoundTripTerm
namespace Gojq.RefTerm
open Gojq
theorem followT_suf (t : Term) (s : Suffix) (rest : List Tok) (hsuf : suffixable t = true)
    (hne : t = .identity → s ≠ .iter) :
    followT t (toks (itemsSuf (isIdentity t) s) ++ rest).head? = true := by
  cases t <;> first
    | (simp [suffixable] at hsuf; done)
    | (cases s <;> simp_all [followT, itemsSuf, isIdentity, itemsS])
  all_goals trace_state
  all_goals sorry
end Gojq.RefTerm

import Gojq.Proofs.RoundTripMain
namespace Gojq.C09
open Gojq Gojq.Lexer Gojq.RefTerm
def w6 : Query := .term (.str (.lit [255]))
set_option maxRecDepth 8192 in
theorem t1 : Printable w6 = false := by decide +kernel
set_option maxRecDepth 8192 in
theorem t2 : refParseQ 40 (tokensOf (printQ w6)) = some (.term (.str (.lit [239, 191, 189]))) := by rfl
end Gojq.C09

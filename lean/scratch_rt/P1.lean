import Gojq.Model.RefTermParser
namespace Gojq.RefTerm
open Gojq Gojq.Parse Gojq.Printer Gojq.Generated.Lalr

theorem w_term (fuel mode : Nat) (fs : List (String × Ast)) (o : Out) :
    w (fuel + 1) mode (.obj "Term" fs) o = none := by
  rw [w]
  trace_state
  sorry
end Gojq.RefTerm

import Gojq.Proofs.RoundTripQuery
namespace Gojq.RefTerm
open Gojq
set_option maxHeartbeats 400000 in
theorem t1 (g : Nat) (v : Bytes) (rest : List Tok) :
    pPrimary (g + 1) (.kw .break_ :: .var v :: rest) = some (.break_ v, rest) := by
  unfold pPrimary
  simp

theorem t2 (g : Nat) (v : Bytes) (rest : List Tok) :
    pPrimary (g + 1) (.kw .break_ :: .var v :: rest) = some (.break_ v, rest) := by
  rw [pPrimary]
end Gojq.RefTerm

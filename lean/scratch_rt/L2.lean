import Gojq.Proofs.RoundTripLexTok3
namespace Gojq.RefTerm
open Gojq Gojq.Lexer Gojq.Generated.Lalr

theorem scanNumber_nil (st : NumState) (fol : Bytes) (h : scanNumber st [] = (0, true)) (hf : numStop fol = true) :
    scanNumber st fol = (0, true) := by
  cases fol with
  | nil => exact h
  | cons c fol =>
    simp only [numStop, peek_cons, Bool.not_eq_true', Bool.or_eq_false_iff] at hf
    obtain ⟨⟨h1, h2⟩, h3⟩ := hf
    have he : (c == 101 || c == 69) = false := by
      cases hc : (c == 101 || c == 69)
      · rfl
      · simp only [Bool.or_eq_true, beq_iff_eq] at hc
        rcases hc with rfl | rfl <;> exact absurd h3 (by decide)
    simp only [Bool.or_eq_false_iff] at he
    cases st <;> simp [scanNumber] at h ⊢ <;> simp_all

theorem scanNumber_app (st : NumState) (r : Bytes) : ∀ (fol : Bytes), scanNumber st r = (r.length, true) →
    numStop fol = true → scanNumber st (r ++ fol) = (r.length, true) := by
  fun_induction scanNumber st r
  case case1 => intro fol _ hf; exact scanNumber_nil _ fol rfl hf
  case case2 => intro fol _ hf; exact scanNumber_nil _ fol rfl hf
  case case3 => intro fol h; simp at h
  case case4 => intro fol h; simp at h
  case case5 => intro fol _ hf; exact scanNumber_nil _ fol rfl hf
  all_goals (intro fol h hf)
  all_goals (try (simp at h; done))
  all_goals (
    simp only [List.length_cons, Prod.mk.injEq, Nat.add_right_cancel_iff] at h
    obtain ⟨h1, h2⟩ := h
    subst h1 h2
    rename_i ih hx
    have := ih fol hx hf
    rw [List.cons_append, scanNumber]
    simp_all)
end Gojq.RefTerm

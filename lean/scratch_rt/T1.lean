import Gojq.Model.RefTermParser
namespace Gojq.RefTerm
open Gojq

theorem pPrimary_number (f : Nat) (s : Bytes) (rest : List Tok) :
    pPrimary (f + 1) (.number s :: rest) = some (.number s, rest) := by
  simp [pPrimary]

theorem pPrimary_paren (f : Nat) (rest : List Tok) :
    pPrimary (f + 1) (.ch 40 :: rest) = (do
        let (q, ts) ← pClimb f true 1 rest
        let ts ← expect (.ch 41) ts
        some (.paren q, ts)) := by
  simp [pPrimary]

theorem pPrimary_identity (f : Nat) (rest : List Tok)
    (h : ∀ r', rest ≠ .ch 91 :: r') (h2 : ∀ v r', rest ≠ .str v :: r') (h3 : ∀ r', rest ≠ .strStart :: r') :
    pPrimary (f + 1) (.ch 46 :: rest) = some (.identity, rest) := by
  rw [pPrimary]
  all_goals simp_all

theorem pLoop_op (f : Nat) (item : Bool) (min : Nat) (lhs : Query) (h : Tok) (o : BOp) (rest : List Tok)
    (ho : binopOfTok h = some o) (hl : min ≤ o.lv) :
    pLoop (f + 1) item min lhs (h :: rest) = (do
            let (rhs, ts') ← pClimb f (decide (o.lv ≤ 2)) o.rmin rest
            if o.assoc == .non && clash o ts' then none else
            pLoop f item min (.binop o lhs rhs) ts') := by
  simp [pLoop, ho]
  omega
end Gojq.RefTerm

import Gojq.Proofs.RoundTripQuery
namespace Gojq.RefTerm
open Gojq
theorem pPrimary_try_nocatch (f : Nat) (rest : List Tok) (b : Term) (ts : List Tok)
    (h1 : pTerm f rest = some (b, ts)) (hne : ∀ r', ts ≠ .kw .catch_ :: r') :
    pPrimary (f + 1) (.kw .try_ :: rest) = some (.try_ (.term b), ts) := by
  rw [pPrimary]
  trace_state
  simp only [h1, Option.bind_eq_bind, Option.bind_some]
  trace_state
  sorry
end Gojq.RefTerm

import Gojq.Proofs.RoundTripQuery
namespace Gojq.RefTerm
open Gojq
theorem pPrimary_format (g : Nat) (s : Bytes) (rest : List Tok)
    (h2 : ∀ v r', rest ≠ .str v :: r') (h3 : ∀ r', rest ≠ .strStart :: r') :
    pPrimary (g + 1) (.format s :: rest) = some (.format s, rest) := by
  rw [pPrimary]
  all_goals simp_all

theorem fol_format (s : Bytes) (rest : List Tok) (h : followT (.format s) rest.head? = true) :
    (∀ v r', rest ≠ .str v :: r') ∧ (∀ r', rest ≠ .strStart :: r') := by
  cases rest with
  | nil => simp
  | cons x r => cases x <;> simp_all [followT]
end Gojq.RefTerm

import Gojq.Proofs.RoundTripLexTok3
namespace Gojq.RefTerm
open Gojq Gojq.Lexer Gojq.Generated.Lalr Gojq.Printer

theorem isCont_ge (b : UInt8) (h : Utf8.isCont b = true) : 128 ≤ b.toNat := by
  simp [Utf8.isCont] at h; omega

theorem ite_ge (c : Prop) [Decidable c] (a b : Nat) (ha : 128 ≤ a) (hb : 128 ≤ b) : 128 ≤ (if c then a else b) := by
  split <;> assumption

theorem decodeRune_valid_bytes (s : Bytes) :
    (Utf8.decodeRune s).2.2 = true → 128 ≤ (s.headD 0).toNat →
    ∀ x ∈ s.take (Utf8.decodeRune s).2.1, 128 ≤ x.toNat := by
  fun_cases Utf8.decodeRune s
  all_goals (intro hv hc x hx)
  all_goals (try (simp at hv; done))
  · rename_i h; simp at hc; omega
  · rename_i h
    simp at hx hc
    rcases hx with rfl | rfl
    · exact hc
    · exact isCont_ge _ h
  · rename_i h
    simp only [Bool.and_eq_true, decide_eq_true_eq] at h
    simp at hx hc
    rcases hx with rfl | rfl | rfl
    · exact hc
    · exact Nat.le_trans (ite_ge _ 160 128 (by decide) (by decide)) h.1.1
    · exact isCont_ge _ h.2
  · rename_i h
    simp only [Bool.and_eq_true, decide_eq_true_eq] at h
    simp at hx hc
    rcases hx with rfl | rfl | rfl | rfl
    · exact hc
    · exact Nat.le_trans (ite_ge _ 144 128 (by decide) (by decide)) h.1.1.1
    · exact isCont_ge _ h.1.2
    · exact isCont_ge _ h.2
end Gojq.RefTerm

import Gojq.Proofs.RoundTripBasic
namespace Gojq.RefTerm
open Gojq Gojq.Lexer
theorem hasColons_cons (b : UInt8) (r : Bytes) (h : hasColons r = true) : hasColons (b :: r) = true := by
  unfold hasColons
  split
  · rfl
  · next heq => injection heq with _ e; subst e; exact h
  · next heq => cases heq

theorem splitColons_hasColons (n : Bytes) : ∀ a z, splitColons n = some (a, z) → hasColons n = true := by
  fun_induction splitColons n with
  | case1 r => intro _ _ _; rfl
  | case2 b r hne a z hs ih => intro _ _ _; exact hasColons_cons b r (ih a z hs)
  | case3 b r hne hs => intro a z h; simp [hs] at h
  | case4 => intro a z h; cases h

theorem splitColons_head (n : Bytes) : ∀ a z, splitColons n = some (a, z) → isIdentName a = true →
    (n.head? == some 36) = false := by
  fun_induction splitColons n with
  | case1 r => intro a z h ha; injection h with h; injection h with h1 _; subst h1; simp [isIdentName] at ha
  | case2 b r hne a z hs ih =>
    intro a' z' h ha
    simp only [hs, Option.some.injEq, Prod.mk.injEq] at h
    obtain ⟨h1, _⟩ := h
    subst h1
    simp only [isIdentName, Bool.and_eq_true] at ha
    have : b ≠ 36 := by intro e; subst e; exact absurd ha.1 (by decide)
    simp [this]
  | case3 b r hne hs => intro a z h; simp [hs] at h
  | case4 => intro a z h; cases h
end Gojq.RefTerm

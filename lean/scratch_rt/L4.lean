import Gojq.Proofs.RoundTripLexTok3
namespace Gojq.RefTerm
open Gojq Gojq.Lexer Gojq.Generated.Lalr Gojq.Printer

theorem scan_plain (blk : Bytes) (h : ∀ x ∈ blk, x ≠ 92 ∧ x ≠ 34) (Y : Bytes) (k : Nat) :
    scanString (blk ++ Y) k = scanString Y (k + blk.length) := by
  induction blk generalizing k with
  | nil => rfl
  | cons c blk ih =>
    obtain ⟨h1, h2⟩ := h c (by simp)
    rw [List.cons_append, scanString.eq_def]
    simp only [beq_iff_eq, h1, h2, if_false]
    rw [ih (fun x hx => h x (by simp [hx]))]
    simp only [List.length_cons]; congr 1; omega

theorem hexLower_isHex : ∀ n, n < 16 → isHex (hexLower n) = true := by decide

theorem scan_esc2 (e : UInt8) (Y : Bytes) (k : Nat)
    (he : e = 34 ∨ e = 92 ∨ e = 98 ∨ e = 102 ∨ e = 110 ∨ e = 114 ∨ e = 116) :
    scanString (92 :: e :: Y) k = scanString Y (k + 2) := by
  rcases he with rfl | rfl | rfl | rfl | rfl | rfl | rfl <;> (rw [scanString.eq_def]; simp)

theorem scan_escU (a b c d : UInt8) (Y : Bytes) (k : Nat) (ha : isHex a = true) (hb : isHex b = true)
    (hc : isHex c = true) (hd : isHex d = true) :
    scanString (92 :: 117 :: a :: b :: c :: d :: Y) k = scanString Y (k + 6) := by
  rw [scanString.eq_def]; simp [ha, hb, hc, hd]

/-- the escape `encodeBody` writes for a byte it does not copy -/
def escOf (c : UInt8) : Bytes :=
  if c == 34 then [92, 34] else if c == 92 then [92, 92] else if c == 8 then [92, 98]
  else if c == 12 then [92, 102] else if c == 10 then [92, 110] else if c == 13 then [92, 114]
  else if c == 9 then [92, 116]
  else [92, 117, 48, 48, hexLower (c.toNat / 16), hexLower (c.toNat % 16)]

theorem scan_esc (c : UInt8) (Z : Bytes) (k : Nat) :
    scanString (escOf c ++ Z) k = scanString Z (k + (escOf c).length) := by
  have h1 : c.toNat / 16 < 16 := by have := c.toNat_lt; omega
  have h2 : c.toNat % 16 < 16 := by omega
  unfold escOf
  repeat' split
  all_goals first
    | exact scan_esc2 _ Z k (by simp)
    | exact scan_escU _ _ _ _ Z k (by decide) (by decide) (hexLower_isHex _ h1) (hexLower_isHex _ h2)
end Gojq.RefTerm
